---------------------------- MODULE MC_Fornberg ----------------------------
(* Behaviours: pick an ordered tuple of distinct nodes and an expansion point, then run the     *)
(* Fornberg recursion of _fd_weights_all one inner iteration per step.  At termination the      *)
(* table must equal the Lagrange-derivative weights BY DEFINITION; corollaries: row 0           *)
(* interpolates (sums to 1), rows k >= 1 sum to 0, scaling nodes by c scales row k by c^-k.     *)
EXTENDS Fornberg, Json
CONSTANTS Sizes, Values, X0s, EmitOn
VARIABLES x, x0, i, v, c1, c2, c4, c5, w, oldrow, done
vars == <<x, x0, i, v, c1, c2, c4, c5, w, oldrow, done>>

ValuesStd == {R(-3), R(-2), R(-1), Zero, R(1), R(2), R(3), Q(1, 2), Q(-1, 2)}
ValuesInt == {R(k) : k \in -4..5}
X0sStd == {Zero, R(1), R(-3), Q(1, 2), R(5), Q(-7, 2), Q(1, 3)}
X0sFew == {Zero, Q(1, 2), R(-7)}
ValuesSeven == {R(-3), R(-1), Zero, R(1), R(2), Q(1, 2), Q(-3, 2)}

M == Len(x)
N == M - 1                       \* all rows at once (n = len(x) - 1)

Tuples(k) == {t \in [1..k -> Values] : \A a, b \in 1..k : a # b => t[a] # t[b]}
ZeroRow == [jj \in 1..(N + 1) |-> Zero]

Init == /\ \E k \in Sizes : x \in Tuples(k)
        /\ x0 \in X0s
        /\ i = 1 /\ v = 0 /\ c1 = One /\ c2 = One /\ c5 = RSub(x[1], x0) /\ c4 = RSub(x[2], x0)
        /\ w = [r \in 1..Len(x) |-> [jj \in 1..Len(x) |-> IF r = 1 /\ jj = 1 THEN One ELSE Zero]]
        /\ oldrow = [jj \in 1..Len(x) |-> Zero] /\ done = FALSE

Inner == /\ ~done /\ v < i
         /\ LET c3 == RSub(x[i + 1], x[v + 1]) IN
              /\ c2' = RMul(c2, c3)
              /\ oldrow' = w[v + 1]
              /\ w' = InnerUpdate(w, x, v, i, N, c3, c4)
         /\ v' = v + 1
         /\ UNCHANGED <<x, x0, i, c1, c4, c5, done>>
Outer == /\ ~done /\ v = i
         /\ w' = OuterUpdate(w, oldrow, i, N, c1, c2, c5)
         /\ c1' = c2
         /\ IF i + 1 < M
            THEN /\ i' = i + 1 /\ v' = 0 /\ c2' = One /\ c5' = c4 /\ c4' = RSub(x[i + 2], x0) /\ done' = FALSE
            ELSE /\ done' = TRUE /\ UNCHANGED <<i, v, c2, c4, c5>>
         /\ UNCHANGED <<x, x0, oldrow>>
Next == Inner \/ Outer

\* w is node-major (w[node][order]); transpose to rows of orders
Table == [k \in 1..(N + 1) |-> [j \in 1..M |-> w[j][k]]]
Exact == LagrangeWeights(x, x0, N)
Usable == AllValid(Table) /\ AllValid(Exact)

InvIsLagrange == done => LET E == Exact IN (AllValid(Table) /\ AllValid(E)) => Table = E
RowSum(W, k) == RSumFun(W[k], 1, Len(W[k]))
InvRowSums == (done /\ Usable) => /\ RowSum(Table, 1) = One
                                   /\ \A k \in 2..(N + 1) : LET sm == RowSum(Table, k) IN Valid(sm) => sm = Zero
\* homogeneity lemma used by the replay to reach node spacings far from 1
ScaledX(c) == [j \in 1..M |-> RMul(c, x[j])]
InvScaling == done =>
   \A c \in {R(2), Q(-1, 2)} :
      LET Ws == LagrangeWeights(ScaledX(c), RMul(c, x0), N)  T == Table IN
      (AllValid(Ws) /\ AllValid(T)) => \A k \in 1..(N + 1) : \A j \in 1..M :
          LET lhs == RMul(Ws[k][j], RPow(c, k - 1)) IN Valid(lhs) => lhs = T[k][j]

Rec == [x |-> x, x0 |-> x0, W |-> Table, usable |-> AllValid(Table)]
Emit == (EmitOn /\ done) => PrintT(<<"@@", ToJson(Rec)>>)
=============================================================================
