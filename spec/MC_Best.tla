------------------------------- MODULE MC_Best -------------------------------
(* every table of N rows over a small value set x a few error patterns; theorems:               *)
(*   MinimumWins : no row has a smaller penalised error than the chosen one                      *)
(*   AgreedValueIsNotPenalised : if all estimates are equal nothing is penalised                 *)
(*   FarOutlierLoses : an estimate more than 10x the median (median not ~0) with the same raw    *)
(*                     error as a row at the median never wins                                    *)
EXTENDS BestEstimate, Json
CONSTANTS Ns, EmitOn
VARIABLES der, err, B, pen
vars == <<der, err, B, pen>>
Tiny == Q(1, 134217728)          \* 2^-27 < 1e-8: below the median guard
Vals == {R(-3), Q(-1, 2), Zero, Tiny, Q(1, 8), R(1), R(2), R(40)}
ErrPat(N, s) == [i \in 1..N |-> CASE s = 0 -> Zero [] s = 1 -> Q(((i * 3) % 4), 4) [] s = 2 -> Q(1, 1 + ((i * 5) % 3)) [] OTHER -> IF i = 1 THEN Zero ELSE Q(1, 2)]
NoB == [row |-> -1]
Init == /\ \E N \in Ns : der \in [1..2 -> Vals] /\ \E s \in 0..3 : err = ErrPat(N, s)
        /\ B = NoB /\ pen = <<>>
\* the table is completed entry by entry and evaluated in a last step (TLC's workers share the enumeration, and
\* simulation only evaluates the table it picked)
Fill == /\ Len(der) < Len(err) /\ \E v \in Vals : der' = Append(der, v)
        /\ UNCHANGED <<err, B, pen>>
Evaluate == /\ Len(der) = Len(err) /\ B = NoB
            /\ B' = Best(der, err) /\ pen' = Penalty(der) /\ UNCHANGED <<der, err>>
Next == Fill \/ Evaluate
Ready == B # NoB
InvMinimumWins == (Ready /\ AllValidSeq(B.errors)) => \A i \in 1..Len(der) : RLeq(B.error, B.errors[i])
InvAgreed == (Ready /\ AllValidSeq(B.errors) /\ \A i \in 1..Len(der) : der[i] = der[1]) => B.errors = err
Med == Percentile(Sorted(der), 50)
InvFarOutlierLoses ==
  Ready => \A i, j \in 1..Len(der) :
     (/\ RLt(Q(1, 100000000), RAbs(Med)) /\ RLt(RMulInt(RAbs(Med), 10), RAbs(der[i]))
      /\ der[j] = Med /\ RLeq(err[j], err[i]) /\ AllValidSeq(pen)) => B.row # i - 1
\* the winner is never a row the penalty touched when an untouched row has no larger raw error
InvPenalisedLoses ==
  Ready => \A i, j \in 1..Len(der) :
     (AllValidSeq(pen) /\ pen[i] # Zero /\ pen[j] = Zero /\ RLeq(err[j], err[i])) => B.row # i - 1
Rec == [der |-> der, err |-> err, row |-> B.row, value |-> B.value, error |-> B.error, pen |-> pen, valid |-> AllValidSeq(B.errors)]
Emit == (EmitOn /\ Ready) => PrintT(<<"@@", ToJson(Rec)>>)
=============================================================================
