------------------------------- MODULE LimitRes -------------------------------
(***************************************************************************)
(* numdifftools.limits.Limit.__call__ / Residue as a small machine over an *)
(* array of points, each REGULAR (f is finite there) or SINGULAR (f gives  *)
(* NaN there and has a limit):                                             *)
(*   Eval  : f_z = f(z) everywhere                                         *)
(*   Find  : k = positions where f_z is NaN, in increasing order           *)
(*   Lim   : the limits of the singular points, computed on z.flat[k]      *)
(*           (same order), steps signed by the method, path by generator,  *)
(*           Richardson with order+1 terms                                 *)
(*   Put   : np.put(f_z, k, limits)                                        *)
(* Requirements: regular points keep f's own value, the limit computed for *)
(* the j-th singular point lands on ITS position (PutIndexBijection).      *)
(* Residue: f(z0 + d) * d^p, default order p + 2, order must exceed p.     *)
(***************************************************************************)
EXTENDS Integers, Sequences, TLC, Json
CONSTANTS EmitOn
VARIABLES layout, pc, k, lims, res, cfg
vars == <<layout, pc, k, lims, res, cfg>>

\* points: "P", "Q" singular (distinct limits), "R", "S" regular
Layouts == {<<"P">>, <<"R">>, <<"R", "P">>, <<"P", "R", "P">>, <<"Q", "R", "P">>, <<"P", "P", "S", "Q">>,
            <<"Q", "P">>, <<"R", "S">>, <<"P", "Q", "R", "Q">>, <<"S", "Q", "P", "R">>}
Singular(p) == p \in {"P", "Q"}
Methods == {"above", "below"}
Paths == {"radial", "spiral"}
Kernels == {"sinc", "expm1w", "log1pw", "wsin"}

Init == /\ layout \in Layouts /\ pc = "Eval" /\ k = <<>> /\ lims = <<>> /\ res = <<>>
        /\ cfg \in [method : Methods, path : Paths, order : {1, 2, 4, 8}, ratio : {2, 4, 12, 16}, kernel : Kernels]

Tag(p) == IF Singular(p) THEN <<"nan", p>> ELSE <<"f", p>>
Eval == pc = "Eval" /\ pc' = "Find" /\ res' = [i \in 1..Len(layout) |-> Tag(layout[i])] /\ UNCHANGED <<layout, k, lims, cfg>>
NanPositions == LET RECURSIVE acc(_, _)
                    acc(i, s) == IF i > Len(layout) THEN s ELSE acc(i + 1, IF Singular(layout[i]) THEN Append(s, i) ELSE s)
                IN  acc(1, <<>>)
Find == pc = "Find" /\ pc' = "Lim" /\ k' = NanPositions /\ UNCHANGED <<layout, lims, res, cfg>>
Lim == /\ pc = "Lim" /\ pc' = "Put"
       /\ lims' = [j \in 1..Len(k) |-> <<"lim", layout[k[j]]>>]          \* limit of the point at position k[j]
       /\ UNCHANGED <<layout, k, res, cfg>>
Put == /\ pc = "Put" /\ pc' = "Done"
       /\ res' = [i \in 1..Len(layout) |->
                    IF \E j \in 1..Len(k) : k[j] = i THEN lims[CHOOSE j \in 1..Len(k) : k[j] = i] ELSE res[i]]
       /\ UNCHANGED <<layout, k, lims, cfg>>
Next == Eval \/ Find \/ Lim \/ Put
Spec == Init /\ [][Next]_vars

RegularUntouched == pc = "Done" => \A i \in 1..Len(layout) : ~Singular(layout[i]) => res[i] = <<"f", layout[i]>>
PutIndexBijection == pc = "Done" => \A i \in 1..Len(layout) : Singular(layout[i]) => res[i] = <<"lim", layout[i]>>
StepSign(m) == IF m = "above" THEN 1 ELSE -1
RichardsonTerms(order) == order + 1

\* Residue table
ResidueOrder(p, given) == IF given = 0 THEN p + 2 ELSE given      \* 0 = not given
ResidueValid(p, given) == p < ResidueOrder(p, given)

Emit == (EmitOn /\ pc = "Done") => PrintT(<<"@@", ToJson([layout |-> layout, cfg |-> cfg, sign |-> StepSign(cfg.method), terms |-> RichardsonTerms(cfg.order), res |-> res])>>)
=============================================================================
