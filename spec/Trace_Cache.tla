----------------------------- MODULE Trace_Cache -----------------------------
(* Trace validation of the rule cache (hook H1) over whole processes - used on the traces the    *)
(* repository's own test suite produces when it is run with the hooks on.  The cache is a set of *)
(* keys; a lookup hits iff the key was inserted before (in this process); an insert follows a    *)
(* miss of the same key by the same thread.  Keys are opaque strings.                            *)
EXTENDS Integers, Sequences, FiniteSets, TLC, Json, IOUtils
Traces == JsonDeserialize(IOEnv.TRACE_FILE).traces
VARIABLES t, l, cache, pending
vars == <<t, l, cache, pending>>
Ev == Traces[t].ev
TraceInit == t \in 1..Len(Traces) /\ l = 1 /\ cache = {} /\ pending = {}
Get == /\ l <= Len(Ev) /\ Ev[l].ev = "rule_get"
       /\ Ev[l].hit = (Ev[l].key \in cache)                                   \* CacheCoherent
       /\ pending' = IF Ev[l].hit THEN pending ELSE pending \cup {<<Ev[l].thread, Ev[l].key>>}
       /\ UNCHANGED cache
Insert == /\ l <= Len(Ev) /\ Ev[l].ev = "rule_insert"
          /\ <<Ev[l].thread, Ev[l].key>> \in pending                          \* only after its own miss
          /\ cache' = cache \cup {Ev[l].key}
          /\ pending' = pending \ {<<Ev[l].thread, Ev[l].key>>}
Clear == /\ l <= Len(Ev) /\ Ev[l].ev = "cache_clear" /\ cache' = {} /\ UNCHANGED pending
TraceNext == (Get \/ Insert \/ Clear) /\ l' = l + 1 /\ t' = t
TraceSpec == TraceInit /\ [][TraceNext]_vars
Finished == l = Len(Ev) + 1
NoPendingAtEnd == Finished => pending = {}
Emit == Finished => PrintT(<<"@@", ToJson([tid |-> t, n |-> Len(Ev), keys |-> Cardinality(cache)])>>)
=============================================================================
