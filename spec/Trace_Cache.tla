----------------------------- MODULE Trace_Cache -----------------------------
(* Trace validation of the rule cache (hook H1) over whole processes - used on the traces the    *)
(* repository's own test suite produces when it is run with the hooks on.                        *)
(*   - the cache is a set of keys; a lookup hits iff the key was inserted before (in this        *)
(*     process and not cleared since); an insert follows a miss of the same key by the same      *)
(*     thread (CacheCoherent / no foreign inserts);                                              *)
(*   - every lookup is made by a rule object (method, n, order) and must ask for exactly the     *)
(*     key spec/Rules.tla dispatches that configuration to: parity = Parity(m, n, o) and         *)
(*     num_terms = NumTerms(m, n, o) (DispatchConforms) - this ties every rule the test-suite    *)
(*     ever requested to the specification the truncation-order theorems were proved for.        *)
(* Keys are <<ratio as string, parity, num_terms>>.                                              *)
EXTENDS Rules, Sequences, FiniteSets, Json, IOUtils
Traces == JsonDeserialize(IOEnv.TRACE_FILE).traces
VARIABLES t, l, cache, pending
vars == <<t, l, cache, pending>>
Ev == Traces[t].ev
TraceInit == t \in 1..Len(Traces) /\ l = 1 /\ cache = {} /\ pending = {}
KnownMethod(m) == m \in {"central", "central2", "forward", "backward", "complex"}
DispatchConforms(e) ==
  KnownMethod(e.m) /\ e.n >= 1 /\ e.o >= 1 /\ e.parity = Parity(e.m, e.n, e.o) /\ e.terms = NumTerms(e.m, e.n, e.o)
Get == /\ l <= Len(Ev) /\ Ev[l].ev = "rule_get"
       /\ Ev[l].hit = (Ev[l].key \in cache)                                   \* CacheCoherent
       /\ DispatchConforms(Ev[l])
       /\ pending' = IF Ev[l].hit THEN pending ELSE pending \cup {<<Ev[l].thread, Ev[l].key>>}
       /\ UNCHANGED cache
Insert == /\ l <= Len(Ev) /\ Ev[l].ev = "rule_insert"
          /\ <<Ev[l].thread, Ev[l].key>> \in pending                          \* only after its own miss
          /\ cache' = cache \cup {Ev[l].key}
          /\ pending' = pending \ {<<Ev[l].thread, Ev[l].key>>}
Clear == /\ l <= Len(Ev) /\ Ev[l].ev = "cache_clear" /\ cache' = {} /\ UNCHANGED pending
TraceNext == (Get \/ Insert \/ Clear) /\ l' = l + 1 /\ t' = t
TraceSpec == TraceInit /\ [][TraceNext]_vars
Finished == l = Len(Ev) + 1
NoPendingAtEnd == Finished => pending = {}
Emit == Finished => PrintT(<<"@@", ToJson([tid |-> t, n |-> Len(Ev), keys |-> Cardinality(cache)])>>)
=============================================================================
