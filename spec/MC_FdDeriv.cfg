CONSTANTS
  EmitOn = TRUE
INIT Init
NEXT Next
CHECK_DEADLOCK FALSE
INVARIANT InvWindows
INVARIANT InvLongEnough
CONSTRAINT Emit
