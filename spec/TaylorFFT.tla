------------------------------ MODULE TaylorFFT ------------------------------
(***************************************************************************)
(* The radius-search controller of numdifftools.fornberg.Taylor.__call__ / *)
(* _check_convergence.  One iteration = one circle of function values.     *)
(* The numeric predicates (FFT coefficients out of balance, poor           *)
(* convergence, NaN) are environment choices `ns` (radius must shrink) and *)
(* `dg` (extreme mismatch: degenerate); everything else is bookkeeping:    *)
(*   dirchg  number of direction changes so far                            *)
(*   prev    previous direction ("none" | "smaller" | "larger")            *)
(*   degen   degenerate flag (sticky)                                      *)
(*   numchg  iterations counted once the range is found (dirchg > 1) or    *)
(*           the search is degenerate                                      *)
(*   sqrts   how often the step ratio has been square-rooted               *)
(* The call stops when numchg reaches 1 + num_extrap (converged) or after  *)
(* max_iter circles (failed).                                              *)
(***************************************************************************)
EXTENDS Integers, TLC
CONSTANTS MaxIters, NumExtraps
VARIABLES maxit, minit, nex, i, circles, dirchg, prev, degen, numchg, sqrts, pc

vars == <<maxit, minit, nex, i, circles, dirchg, prev, degen, numchg, sqrts, pc>>

Init == /\ maxit \in MaxIters /\ minit \in {0, maxit \div 2, maxit} /\ nex \in NumExtraps
        /\ i = 0 /\ circles = 0 /\ dirchg = 0 /\ prev = "none" /\ degen = FALSE /\ numchg = 0 /\ sqrts = 0
        /\ pc = "loop"

\* one pass through the loop body: evaluate a circle, then _check_convergence(i, ...)
Dir(ns) == IF ns THEN "smaller" ELSE "larger"
Iterate(ns, dg) ==
  /\ pc = "loop" /\ i < maxit
  /\ circles' = circles + 1
  /\ LET counts == dirchg > 1 \/ degen
         nc == IF counts THEN numchg + 1 ELSE numchg
     IN  IF counts /\ nc >= 1 + nex
         THEN /\ numchg' = nc /\ pc' = "converged"
              /\ UNCHANGED <<i, dirchg, prev, degen, sqrts>>
         ELSE LET dnow == degen \/ (dg /\ i > minit)              \* only checked while not yet degenerate
                  nsm  == IF dnow THEN (i % 2 = 0) ELSE ns
                  dc   == IF prev # "none" /\ Dir(nsm) # prev THEN dirchg + 1 ELSE dirchg
              IN  /\ numchg' = nc /\ degen' = dnow /\ dirchg' = dc
                  /\ sqrts' = IF dc > 0 THEN sqrts + 1 ELSE sqrts
                  /\ prev' = Dir(nsm)
                  /\ IF i + 1 < maxit THEN i' = i + 1 /\ pc' = "loop" ELSE i' = i /\ pc' = "failed"
  /\ UNCHANGED <<maxit, minit, nex>>

Next == \E ns \in BOOLEAN, dg \in BOOLEAN : Iterate(ns, dg)
Spec == Init /\ [][Next]_vars

Done == pc \in {"converged", "failed"}
\* liveness: whatever the numeric predicates answer, the search stops (checked under weak fairness)
FairSpec == Spec /\ WF_vars(Next)
Termination == <>Done
\* C17: failed is set exactly when the iteration cap was reached
FailedIffCap == (pc = "failed") => circles = maxit
ConvergedMeans == pc = "converged" => numchg = 1 + nex /\ (dirchg > 1 \/ degen) /\ circles <= maxit
\* the extrapolation over successive radii needs three circles (else it would index past its lists)
EnoughCircles == Done => circles >= 3
\* a converged search has accumulated num_extrap + 1 circles after the range was found
CirclesAfterRange == pc = "converged" => circles >= 1 + nex + (IF degen THEN 1 ELSE 3)
DegenerateOnlyLate == degen => i > minit \/ Done
TypeOK == dirchg \in 0..maxit /\ numchg \in 0..(nex + 1) /\ circles \in 0..maxit
=============================================================================
