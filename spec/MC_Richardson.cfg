CONSTANTS
  EmitOn = TRUE
  Ls <- LsOne
INIT Init
NEXT Next
CHECK_DEADLOCK FALSE
INVARIANT InvDefining
INVARIANT InvModelledRemoved
INVARIANT InvCount
CONSTRAINT Emit
