CONSTANTS
  Sizes = {2, 3}
  Values <- ValuesStd
  X0s <- X0sStd
  EmitOn = TRUE
INIT Init
NEXT Next
CHECK_DEADLOCK FALSE
INVARIANT InvIsLagrange
INVARIANT InvRowSums
INVARIANT InvScaling
CONSTRAINT Emit
