CONSTANTS
  NMax = 10
  OMax = 10
  ValN = {1, 2, 5, 8}
  ValO = {1, 2, 3, 4, 6}
  EmitOn = TRUE
INIT Init
NEXT Next
CHECK_DEADLOCK FALSE
INVARIANT InvDecreasing
INVARIANT InvCountPositive
INVARIANT InvDefaultEnough
INVARIANT InvScalePositive
INVARIANT InvRuleFits
CONSTRAINT Emit
