------------------------------ MODULE MC_Dea3 ------------------------------
(* dea3 (C13): every triple of a small grid (totality: ties, zeros, all sign patterns) and      *)
(* geometric triples L + a q^j, j = 0,1,2, with the exact branch / result / error estimate of  *)
(* Wynn!Dea3.  Theorems checked by TLC on the exact domain:                                    *)
(*   Geometric  : not guarded  =>  result = L  and  abserr >= |result - L|                      *)
(*   Covariant  : Dea3(c*e) = c*Dea3(e) for c in {2, -1/4}   (used to reach 30 orders of         *)
(*                magnitude in the replay - an extrapolation, flagged in the evidence)          *)
EXTENDS Wynn, Json
CONSTANTS EmitOn
VARIABLES fam, e0, e1, e2, L
vars == <<fam, e0, e1, e2, L>>

Grid == {R(-2), Q(-3, 2), R(-1), Q(-1, 2), Zero, Q(1, 2), R(1), Q(3, 2), R(2)}
Ls == {Zero, R(1), R(-1), Q(-3, 2), Q(1, 4)}
As == {R(1), R(-2), R(4), Q(1, 3), Q(-1, 4)}
Qs == {Q(1, 3), Q(-1, 3), Q(1, 2), Q(-1, 2), Q(2, 3), Q(-2, 3), Q(3, 2), Q(-3, 2), R(2), R(-2), R(5), R(-5),
       R(49), Q(-1, 49), Q(9, 10), Q(-11, 10), Q(1, 100), R(-1)}        \* q = -1: a pure oscillation about L

GridInit == fam = "grid" /\ e0 \in Grid /\ e1 \in Grid /\ e2 \in Grid /\ L = Zero
GeoInit  == /\ fam = "geo" /\ L \in Ls
            /\ \E a \in As, q \in Qs : e0 = RAdd(L, a) /\ e1 = RAdd(L, RMul(a, q)) /\ e2 = RAdd(L, RMul(a, RMul(q, q)))
Init == GridInit \/ GeoInit
Next == UNCHANGED vars

D == Dea3(e0, e1, e2)
InvGeometric == (fam = "geo" /\ D.valid /\ ~D.conv) => D.result = L /\ RLeq(RAbs(RSub(D.result, L)), D.err)
InvNonNegative == D.valid => RSign(D.err) >= 0 /\ RSign(D.epsc) >= 0
Sc(c) == Dea3(RMul(c, e0), RMul(c, e1), RMul(c, e2))
InvCovariant == \A c \in {R(2), Q(-1, 4)} :
   (D.valid /\ Sc(c).valid) => /\ Sc(c).conv = D.conv
                               /\ Sc(c).result = RMul(c, D.result)
                               /\ Sc(c).err = RMul(RAbs(c), D.err)
Rec == [fam |-> fam, e |-> <<e0, e1, e2>>, L |-> L, d3 |-> D, dom |-> DomainOK(e0, e1, e2)]
Emit == EmitOn => PrintT(<<"@@", ToJson(Rec)>>)
=============================================================================
