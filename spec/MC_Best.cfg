CONSTANTS
  Ns = {3, 4, 5}
  EmitOn = TRUE
INIT Init
NEXT Next
CHECK_DEADLOCK FALSE
INVARIANT InvMinimumWins
INVARIANT InvAgreed
INVARIANT InvFarOutlierLoses
INVARIANT InvPenalisedLoses
CONSTRAINT Emit
