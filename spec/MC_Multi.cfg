CONSTANTS
  Ns = {1, 2, 3, 5, 8}
  Ms = {1, 2, 3, 6}
  Ks = {0, 1, 2, 4}
  EmitOn = TRUE
INIT Init
NEXT Next
CHECK_DEADLOCK FALSE
INVARIANT InvSymmetric
CONSTRAINT Emit
