---------------------------- MODULE TaylorExtrap ----------------------------
(***************************************************************************)
(* The extrapolation over successive radii in numdifftools.fornberg        *)
(* (_extrapolate / richardson): the k-th coefficient computed by an        *)
(* m-point FFT on the circle of radius r is aliased,                        *)
(*     b(r) = A + B r^m + C r^(2m) + ...                                   *)
(* (A the true scaled coefficient, B, C the coefficients m and 2m places   *)
(* further on).  From values on nk radii the code forms                    *)
(*     e0[k] = b[k] - (b[k] - b[k-1]) / (1 - (r[k-1]/r[k])^m)      k = 1..nk-1 *)
(*     e1[k] = e0[k] - (e0[k] - e0[k-1]) / (1 - (r[k-1]/r[k+1])^m)  k = 1..nk-2 *)
(* Theorems (TLC, exact rationals, every choice of distinct radii):        *)
(*   FirstStage  : e0 removes the r^m term whatever the radii are          *)
(*   SecondStage : e1 = A exactly when nothing beyond r^(2m) is present    *)
(*   Count       : nk radii give nk - 2 extrapolated values                *)
(* The cases are replayed into the real functions.                         *)
(***************************************************************************)
EXTENDS Rational, Sequences, TLC, Json
CONSTANTS EmitOn, SmallBox
VARIABLES A, B, C, m, rs

vars == <<A, B, C, m, rs>>
Radii == {Q(1, 4), Q(1, 3), Q(1, 2), Q(2, 3), R(1), Q(3, 2), R(2)}
Coefs == IF SmallBox THEN {R(-2), Q(1, 2), R(1)} ELSE {R(-2), Q(-1, 3), Zero, Q(1, 2), R(1), R(3)}
CCoefs == IF SmallBox THEN {Zero, R(1)} ELSE {Zero, R(1), Q(-1, 2)}
RadiiSeqs(n) == {s \in [1..n -> Radii] : \A i, j \in 1..n : i # j => s[i] # s[j]}

AllSeqs == RadiiSeqs(3) \cup RadiiSeqs(4)
Init == /\ A \in Coefs /\ B \in Coefs /\ C \in CCoefs /\ m \in {1, 2, 3} /\ rs = <<>>
\* the radii are chosen in a step (TLC's workers share the enumeration)
Next == rs = <<>> /\ rs' \in AllSeqs /\ UNCHANGED <<A, B, C, m>>
Ready == rs # <<>>

Bk(k) == RAdd(A, RAdd(RMul(B, RPow(rs[k], m)), RMul(C, RPow(rs[k], 2 * m))))
Rich(hi, lo, c) == RSub(hi, RDiv(RSub(hi, lo), c))                     \* richardson(vals, k, c)
E0(k) == Rich(Bk(k + 1), Bk(k), RSub(One, RPow(RDiv(rs[k], rs[k + 1]), m)))           \* k = 1..nk-1 (pair k, k+1)
E1(k) == Rich(E0(k + 1), E0(k), RSub(One, RPow(RDiv(rs[k], rs[k + 2]), m)))           \* k = 1..nk-2
Out == [k \in 1..(Len(rs) - 2) |-> E1(k)]
AllValid == \A k \in 1..(Len(rs) - 2) : Valid(E1(k))

\* e0 carries no r^m term: it equals A - C r_k^m r_(k+1)^m
FirstStage == Ready => \A k \in 1..(Len(rs) - 1) :
   Valid(E0(k)) => E0(k) = RSub(A, RMul(C, RMul(RPow(rs[k], m), RPow(rs[k + 1], m))))
SecondStage == (Ready /\ AllValid) => \A k \in 1..(Len(rs) - 2) : E1(k) = A
Count == Ready => Len(Out) = Len(rs) - 2

Emit == (EmitOn /\ Ready) => PrintT(<<"@@", ToJson([A |-> A, B |-> B, C |-> C, m |-> m, rs |-> rs,
                                        bs |-> [k \in 1..Len(rs) |-> Bk(k)], valid |-> AllValid])>>)
=============================================================================
