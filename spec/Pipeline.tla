------------------------------ MODULE Pipeline ------------------------------
(***************************************************************************)
(* One call of a derivative object after the function evaluations: the     *)
(* sequence of estimates shrinks stage by stage                            *)
(*   Start(S rows) -> ApplyRule -> Richardson -> Wynn? -> PickBest -> Return*)
(* S generated steps (rows, one column per element of the result);         *)
(* rule of nr+1 weights (nr = 0 for n = 0, multicomplex and Hessian);      *)
(* rt Richardson terms requested.  The record clauses of C02 and the       *)
(* column clauses of C08 are invariants of this machine:                   *)
(*   - every stage keeps at least one row,                                 *)
(*   - the row picked for column c is a row of the last stage, its flat    *)
(*     index is row*ncols + c, and the final step reported for c is the    *)
(*     generated step number row + 2*[Wynn stage ran] of column c.         *)
(***************************************************************************)
EXTENDS Integers, TLC, Json
CONSTANTS SMax, EmitOn
VARIABLES S, nr, rt, ncols, pc, L, wynn, pick
vars == <<S, nr, rt, ncols, pc, L, wynn, pick>>

IMin(a, b) == IF a < b THEN a ELSE b
IMax(a, b) == IF a > b THEN a ELSE b

Init == /\ S \in 1..SMax /\ nr \in 0..9 /\ rt \in 0..4 /\ ncols \in 1..3
        /\ pc = "Start" /\ L = S /\ wynn = FALSE /\ pick = <<>>

ApplyRule ==            \* LogRule._apply: needs nr < S, keeps max(S - nr, 1) rows
  /\ pc = "Start"
  /\ IF nr < S THEN pc' = "Rich" /\ L' = IMax(S - nr, 1) ELSE pc' = "ValueError" /\ L' = L
  /\ UNCHANGED <<S, nr, rt, ncols, wynn, pick>>
Richardson ==           \* uses min(rt, L-1) terms, keeps L - terms rows
  /\ pc = "Rich" /\ pc' = "Wynn" /\ L' = L - IMin(rt, L - 1)
  /\ UNCHANGED <<S, nr, rt, ncols, wynn, pick>>
Wynn ==                 \* dea3 on consecutive triples only if more than two rows are left
  /\ pc = "Wynn" /\ pc' = "Pick"
  /\ wynn' = (L > 2) /\ L' = IF L > 2 THEN L - 2 ELSE L
  /\ UNCHANGED <<S, nr, rt, ncols, pick>>
PickBest ==             \* any row of the last stage may win, independently per column
  /\ pc = "Pick" /\ pc' = "Return"
  /\ pick' \in [1..ncols -> 0..(L - 1)]
  /\ UNCHANGED <<S, nr, rt, ncols, L, wynn>>
Next == ApplyRule \/ Richardson \/ Wynn \/ PickBest
Spec == Init /\ [][Next]_vars

FlatIndex(c) == pick[c] * ncols + (c - 1)
StepRow(c) == pick[c] + (IF wynn THEN 2 ELSE 0)        \* 0-based number of the generated step

InvRows == pc \in {"Rich", "Wynn", "Pick", "Return"} => L >= 1
InvRecord == pc = "Return" => \A c \in 1..ncols :
                /\ StepRow(c) \in 0..(S - 1)                  \* final_step is one of the generated steps
                /\ FlatIndex(c) % ncols = c - 1              \* the estimate for column c comes from column c
                /\ FlatIndex(c) \div ncols = pick[c]
InvGuard == pc = "ValueError" <=> (pc # "Start" /\ pc # "Rich" /\ pc # "Wynn" /\ pc # "Pick" /\ pc # "Return")

Emit == (EmitOn /\ pc = "Pick") => PrintT(<<"@@", ToJson([S |-> S, nr |-> nr, rt |-> rt, rows |-> L, wynn |-> wynn])>>)
=============================================================================
