------------------------------ MODULE MC_Rules ------------------------------
(* Exhaustive check of the rule/stencil requirements over every configuration, and emission of *)
(* the specification's answer per configuration for replay against the implementation.        *)
(* A behaviour: pick a configuration, then build the Taylor signature of its difference       *)
(* quotient power by power (action Step); requirements are evaluated on the finished state.   *)
EXTENDS Rules, Json
CONSTANTS NMax, OMax, EmitOn
VARIABLES m, n, o, k, pw, S
vars == <<m, n, o, k, pw, S>>

St == Stencil(DiffName(m, n, o))

Init == /\ m \in RuleMethods /\ n \in 1..NMax /\ o \in 1..OMax
        /\ k = 0 /\ pw = PowInit(St) /\ S = <<>>
Step == /\ k <= KMax
        /\ S' = Append(S, SigAt(St, pw, k))
        /\ pw' = PowNext(St, pw)
        /\ k' = k + 1
        /\ UNCHANGED <<m, n, o>>
Next == Step
Done == k = KMax + 1

InvWellFormed     == ReqWellFormed(S)
InvCover          == Done => ReqModelledCoverPresent(m, n, o, S)
InvPresent        == Done => ReqModelledArePresent(m, n, o, S)
InvRowIsN         == ReqRowIsN(m, n, o)
InvScaleSign      == Done => ReqScaleSign(m, n, o, S)
InvLeading        == Done => ReqLeadingIsMethodOrder(m, n, o, S)
InvSpacing        == Done => ReqSpacing(m, n, o, S)
InvEvalFirst      == ReqEvalFirst(m, n, o)
InvEnoughSteps    == ReqEnoughSteps(m, n, o)
InvOffsets        == ReqAdmissibleOffsets(m, n, o)

ExpSum == LET e == Exps(m, n, o) IN RSumFun([j \in 1..Len(e) |-> R(e[j])], 1, Len(e))[1]
ExactOK == NumTerms(m, n, o) <= 4 /\ ExpSum <= 16

Rec == [m |-> m, n |-> n, o |-> o,
        diff |-> DiffName(m, n, o), parity |-> Parity(m, n, o),
        rstep |-> RichardsonStep(m, n, o), morder |-> MethodOrder(m, n, o),
        nterms |-> NumTerms(m, n, o), rindex |-> RuleIndex(m, n, o), flip |-> FlipSign(m, n),
        exps |-> Exps(m, n, o), c0 |-> PC0(Parity(m, n, o)),
        pstep |-> PStep(Parity(m, n, o)), poffset |-> POffset(Parity(m, n, o)),
        evalfirst |-> EvalFirstCondition(m, n),
        fu |-> FirstUnmodelled(m, n, o, S),
        honoured |-> ReqOrderHonoured(m, n, o),
        minsteps |-> MinNumSteps(m, n, MethodOrder(m, n, o)),
        sig |-> [j \in 1..Len(S) |-> S[j].val[1]],
        w2 |-> IF ExactOK THEN ExactRule(m, n, o, R(2)) ELSE <<>>,
        w4 |-> IF ExactOK /\ ExpSum <= 8 THEN ExactRule(m, n, o, R(4)) ELSE <<>>,
        w32 |-> IF ExactOK /\ ExpSum <= 6 THEN ExactRule(m, n, o, Q(3, 2)) ELSE <<>>]

Emit == (EmitOn /\ Done) => PrintT(<<"@@", ToJson(Rec)>>)
=============================================================================
