CONSTANTS
  K = 12
  MaxOps = 2
  Unary = {"exp", "expm1", "sin", "cos", "tan", "sinh", "cosh", "tanh", "arctan", "arcsin", "arcsinh", "arctanh", "log1p", "log", "sqrt", "pow32", "powm12"}
  Cs <- CsOne
  EmitOn = TRUE
SPECIFICATION Spec
CHECK_DEADLOCK FALSE
INVARIANT JetDefined
CONSTRAINT Emit
