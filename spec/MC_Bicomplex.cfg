CONSTANTS
  KP = 12
  EmitOn = TRUE
INIT Init
NEXT Next
CHECK_DEADLOCK FALSE
INVARIANT InvRing
CONSTRAINT Emit
