------------------------------- MODULE Threads -------------------------------
(***************************************************************************)
(* C09, schedules: NT threads, each performing ONE call on its OWN object   *)
(* (disjoint objects, own default generator); the only shared state is the *)
(* rule cache.  A call passes the linearisation points                     *)
(*    G   generator state written  (hook H2, per-object: not shared)       *)
(*    E1, E2  first two function evaluations                               *)
(*    R   rule-cache lookup        (hook H1 rule_get)                      *)
(*    I   rule-cache insert        (hook H1 rule_insert, only after a miss)*)
(* The cache is check-then-act without a lock: two threads may both miss   *)
(* and both insert; this is benign because the inserted value is a         *)
(* function of the key alone (CacheCoherent), so every result is Pure.     *)
(* TLC enumerates the interleavings; each emitted schedule (+ the expected *)
(* hit/miss outcome per thread) is enforced on real threads by the harness.*)
(***************************************************************************)
EXTENDS Rules, Sequences, FiniteSets, Json
CONSTANTS NT, EmitOn
VARIABLES cfg, pc, cache, seen, sched

vars == <<cfg, pc, cache, seen, sched>>

\* thread configurations (class, method, n, order); keys collide on purpose
Pool == {<<"Derivative", "central", 1, 2>>, <<"Derivative", "complex", 1, 2>>, <<"Gradient", "central", 1, 2>>,
         <<"Derivative", "central", 1, 4>>, <<"Jacobian", "forward", 1, 2>>, <<"Derivative", "forward", 1, 2>>,
         <<"Derivative", "central", 3, 2>>, <<"Derivative", "backward", 2, 1>>}
RatioTag(n) == IF n = 1 THEN <<2, 1>> ELSE <<8, 5>>
KeyOf(c) == <<RatioTag(c[3]), Parity(c[2], c[3], c[4]), NumTerms(c[2], c[3], c[4])>>
Tag(k) == <<"rules-for", k>>          \* the value stored under a key: a function of the key

Phases == <<"G", "E1", "E2", "R", "I", "done">>

Init == /\ cfg \in [1..NT -> Pool]
        /\ \A i, j \in 1..NT : i < j => cfg[i] # cfg[j] \/ TRUE
        /\ pc = [i \in 1..NT |-> "G"]
        /\ cache = [k \in {} |-> <<>>]
        /\ seen = [i \in 1..NT |-> "none"]
        /\ sched = <<>>

Step(i) ==
  /\ pc[i] # "done"
  /\ sched' = Append(sched, i)
  /\ UNCHANGED cfg
  /\ CASE pc[i] = "G"  -> pc' = [pc EXCEPT ![i] = "E1"] /\ UNCHANGED <<cache, seen>>
       [] pc[i] = "E1" -> pc' = [pc EXCEPT ![i] = "E2"] /\ UNCHANGED <<cache, seen>>
       [] pc[i] = "E2" -> pc' = [pc EXCEPT ![i] = "R"]  /\ UNCHANGED <<cache, seen>>
       [] pc[i] = "R"  -> LET hit == KeyOf(cfg[i]) \in DOMAIN cache IN
                            /\ seen' = [seen EXCEPT ![i] = IF hit THEN "hit" ELSE "miss"]
                            /\ pc' = [pc EXCEPT ![i] = IF hit THEN "done" ELSE "I"]
                            /\ UNCHANGED cache
       [] pc[i] = "I"  -> /\ cache' = [k \in (DOMAIN cache) \cup {KeyOf(cfg[i])} |->
                                          IF k = KeyOf(cfg[i]) THEN Tag(k) ELSE cache[k]]
                          /\ pc' = [pc EXCEPT ![i] = "done"] /\ UNCHANGED seen

Next == \E i \in 1..NT : Step(i)
Spec == Init /\ [][Next]_vars

AllDone == \A i \in 1..NT : pc[i] = "done"
CacheCoherent == \A k \in DOMAIN cache : cache[k] = Tag(k)
\* a thread that got past R uses Tag(its key): either found it or is about to insert exactly it
ResultIsPure == \A i \in 1..NT : pc[i] = "done" => KeyOf(cfg[i]) \in DOMAIN cache /\ cache[KeyOf(cfg[i])] = Tag(KeyOf(cfg[i]))
\* first thread to look a key up always misses
FirstMisses == \A i \in 1..NT : seen[i] = "hit" => \E j \in 1..NT : j # i /\ KeyOf(cfg[j]) = KeyOf(cfg[i])

Emit == (EmitOn /\ AllDone) => PrintT(<<"@@", ToJson([cfg |-> cfg, sched |-> sched, seen |-> seen])>>)
=============================================================================
