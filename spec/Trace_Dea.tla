----------------------------- MODULE Trace_Dea -----------------------------
(* Trace validation for Dea (C14): every recorded call of the real Dea object - table index   *)
(* before the call, branch outcome reported by hook H3, table index after the call - must be a *)
(* step of DeaIndex (the fixed design), and every index obligation must hold along the trace.  *)
EXTENDS DeaIndex, Json, IOUtils, Sequences

Traces == JsonDeserialize(IOEnv.TRACE_FILE).traces
VARIABLES t, l
tvars == <<vars, t, l>>

Ev == Traces[t].ev

TraceInit == /\ t \in 1..Len(Traces) /\ l = 1
             /\ ("req" \in DOMAIN Traces[t] => Traces[t].limexp = TableSize(Traces[t].req))     \* the object holds at least the requested table
             /\ limexp = Traces[t].limexp /\ n = 0 /\ nres = 0 /\ ok = TRUE /\ last = <<"init", 0>>

TraceNext ==
  /\ l <= Len(Ev)
  /\ LET e == Ev[l] IN
       /\ n = e.n_in
       /\ Call(e.kind, e.i)
       /\ ok'
       /\ n' = e.n_after
  /\ l' = l + 1 /\ t' = t

TraceSpec == TraceInit /\ [][TraceNext]_tvars
Finished == l = Len(Ev) + 1
Emit == Finished => PrintT(<<"@@", ToJson([tid |-> t, n |-> Len(Ev)])>>)
=============================================================================
