------------------------------- MODULE Guards -------------------------------
(***************************************************************************)
(* C11: misuse fails loudly.  One call of a derivative object as the       *)
(* sequence of guard points the code passes:                               *)
(*   New -> Configure -> GetSteps -> EvalFirst -> Stencil -> SizeCheck -> RuleCheck   *)
(*         -> Extrapolate -> Return                                        *)
(* with a ValueError exit at each guard.  The REQUIREMENT is the predicate *)
(* Misuse(c): a behaviour of a misused configuration must never reach      *)
(* Return.  `JacobianSkipsEvalFirst` is the upstream deviation (Jacobian   *)
(* and Gradient override the pipeline and never call the complex guard);   *)
(* with it TRUE, TLC exhibits the counterexample on the model.             *)
(* The second family (Misc) lists the documented argument guards of the    *)
(* other entry points.                                                     *)
(***************************************************************************)
EXTENDS Integers, Sequences, TLC, Json
CONSTANTS JacobianSkipsEvalFirst, EmitOn
VARIABLES c, pc

vars == <<c, pc>>
Classes == {"Derivative", "Gradient", "Jacobian", "Hessdiag", "Hessian"}
ComplexStep == {"complex", "multicomplex"}

Configs ==
  [cls : Classes, m : {"central", "forward", "complex", "multicomplex"}, n : 0..6,
   xc : 0..2,             \* x: 0 real, 1 every element has a non-zero imaginary part, 2 only some elements have
   fc : 0..2,             \* f(x): 0 real, 1 complex-valued, 2 complex-valued in some components / for some elements only
   vec : BOOLEAN,         \* f returns one value per input element
   few : BOOLEAN,         \* the user generator yields fewer steps than the rule needs
   dim : 1..3, full : BOOLEAN,
   via : {"ctor", "setter"}]   \* the method was given to the constructor, or assigned to obj.method afterwards

Valid(k) == /\ (k.cls \in {"Gradient", "Jacobian"} => k.n = 1)
            /\ (k.xc = 2 => k.dim > 1)                                                        \* "some" needs several elements
            /\ (k.fc = 2 => (k.cls = "Jacobian" \/ (k.cls = "Derivative" /\ k.dim > 1 /\ k.vec)))  \* ... or several components
            /\ (k.n > 4 => k.m = "multicomplex")
            /\ (k.n = 0 => k.cls = "Derivative" /\ k.m \in {"central", "forward"} /\ k.xc = 0 /\ k.fc = 0 /\ ~k.few)   \* order 0: f itself; only the size guard applies                                              \* n = 5, 6 only matter for the n > 2 guard
            /\ (k.cls \in {"Hessdiag", "Hessian"} => k.n = 2)
            /\ (k.cls # "Derivative" => k.vec)            \* the size guard concerns elementwise Derivative
            /\ (k.cls = "Hessian" => ~k.few)              \* Hessian applies no rule
            /\ (k.m = "multicomplex" => ~k.few)

\* ---- the requirement
MisuseComplex(k) == k.m \in ComplexStep /\ (k.xc > 0 \/ k.fc > 0)
MisuseMultiN(k)  == k.m = "multicomplex" /\ k.n > 2
MisuseSize(k)    == ~k.vec /\ k.dim > 1
MisuseSteps(k)   == k.few
Misuse(k) == MisuseComplex(k) \/ MisuseMultiN(k) \/ MisuseSize(k) \/ MisuseSteps(k)

\* ---- the pipeline as the code runs it
HasEvalFirstGuard(k) == ~(JacobianSkipsEvalFirst /\ k.cls \in {"Gradient", "Jacobian"})

Init == c \in {k \in Configs : Valid(k)} /\ pc = "New"

\* construction; with via = "setter" the object is built with another method and obj.method is assigned:
\* every guard reads the CURRENT method, so the two ways are indistinguishable from here on
Configure == pc = "New" /\ pc' = "Start" /\ UNCHANGED c

GetSteps == pc = "Start" /\ pc' = "EvalFirst" /\ UNCHANGED c
EvalFirst ==
  /\ pc = "EvalFirst" /\ UNCHANGED c
  /\ pc' = IF c.m \in ComplexStep /\ HasEvalFirstGuard(c) /\ (c.xc > 0 \/ c.fc > 0) THEN "ValueError" ELSE "Stencil"
Stencil ==      \* diff-name lookup: multicomplex with n > 2 has no difference function
  /\ pc = "Stencil" /\ UNCHANGED c
  /\ pc' = IF MisuseMultiN(c) THEN "ValueError" ELSE "SizeCheck"
SizeCheck ==    \* _vstack: f_del.size == h.size
  /\ pc = "SizeCheck" /\ UNCHANGED c
  /\ pc' = IF MisuseSize(c) THEN "ValueError" ELSE "RuleCheck"
RuleCheck ==    \* _apply: n_r < num_steps
  /\ pc = "RuleCheck" /\ UNCHANGED c
  /\ pc' = IF MisuseSteps(c) THEN "ValueError" ELSE "Return"
Next == Configure \/ GetSteps \/ EvalFirst \/ Stencil \/ SizeCheck \/ RuleCheck
Spec == Init /\ [][Next]_vars

NoNumbersOnMisuse == pc = "Return" => ~Misuse(c)
NoFalseAlarm == pc = "ValueError" => Misuse(c)

Emit == (EmitOn /\ pc \in {"Return", "ValueError"}) => PrintT(<<"@@", ToJson([c |-> c, outcome |-> pc, misuse |-> Misuse(c)])>>)

\* ---- second family: argument guards of the other entry points.  Each case carries the numbers
\* that decide whether it is misuse; valid combinations are enumerated too and must NOT raise.
MiscCases ==
  {[kind |-> "directionaldiff", a |-> nx, b |-> nv] : nx \in 1..4, nv \in 1..4} \cup
  {[kind |-> "fd_weights_all", a |-> len, b |-> nn] : len \in 1..5, nn \in 0..5} \cup
  {[kind |-> "fd_weights", a |-> len, b |-> nn] : len \in 1..5, nn \in 0..5} \cup
  {[kind |-> "fd_derivative_n", a |-> len, b |-> nn] : len \in 6..9, nn \in {1, 2, 6, 7, 9}} \cup
  {[kind |-> "fd_derivative_len", a |-> len, b |-> lf] : len \in 6..8, lf \in 5..9} \cup
  {[kind |-> "residue", a |-> po, b |-> ord] : po \in 1..3, ord \in 0..5} \cup
  {[kind |-> "limit_path", a |-> p, b |-> v] : p \in 1..9, v \in 0..7}      \* b: the other options of the call (0 defaults, 1 dtheta = 0, 2 dtheta = pi/4 and ratio 2, 3 Residue, 4 generator alone with dtheta = 0, 5 Residue with dtheta = 0, 6 the limit at a regular point, 7 construction alone) - never decide; 1 radial, 2 spiral; unknown names: 3 "diagonal", 4 "x", 5 "straight", 6 "random", 7 "Radial", 8 "s", 9 "radial "
MiscMisuse(k) ==
  CASE k.kind = "directionaldiff" -> k.a # k.b
    [] k.kind \in {"fd_weights_all", "fd_weights"} -> ~(k.b < k.a)
    [] k.kind = "fd_derivative_n" -> ~(k.b < k.a)
    [] k.kind = "fd_derivative_len" -> k.a # k.b
    [] k.kind = "residue" -> ~(k.a < k.b)           \* order must exceed pole_order
    [] k.kind = "limit_path" -> k.a \notin {1, 2}
EmitMisc == \A k \in MiscCases : PrintT(<<"@@", ToJson([misc |-> k, misuse |-> MiscMisuse(k)])>>)
ASSUME EmitOn => EmitMisc
=============================================================================
