---------------------------- MODULE MC_Richardson ----------------------------
(* Every (ratio, spacing, order, num_terms, sequence length) of a small grid: exact weights,   *)
(* the SumToOne / Annihilates theorems, and the exact image of the sequence                    *)
(*    seq_i = L + sum_j a_j h_i^(order + step*j) + b h_i^(order + step*terms_used),  h_i = r^-i  *)
(* (modelled powers plus ONE unmodelled power) in every output slot.                           *)
EXTENDS RichardsonX, Json
CONSTANTS EmitOn
CONSTANTS Ls
VARIABLES rk, step, order, numterms, S, L, b, w, sq, out
vars == <<rk, step, order, numterms, S, L, b, w, sq, out>>

Ratio(k) == CASE k = "2" -> OInt(2) [] k = "3/2" -> ORat(Q(3, 2)) [] k = "4" -> OInt(4) [] k = "3" -> OInt(3)
              [] k = "2i" -> OScale(R(2), OI) [] k = "2w" -> OScale(R(2), OW)
RatioKeys == {"2", "3/2", "4", "3", "2i", "2w"}


r  == Ratio(rk)
nt == TermsUsed(numterms, S)
W  == Weights(r, step, order, nt)
A(j) == R(j)                          \* a_j = j (distinct, non-zero)
H(i) == OInv(OPowI(r, i))             \* h_i = r^-i, i = 0..S-1
SeqV == TLCEval([i \in 1..S |->
         LET h == H(i - 1)
             RECURSIVE sm(_)
             sm(j) == IF j = 0 THEN ORat(L) ELSE OAdd(OScale(A(j), OPowI(h, order + step * (j - 1))), sm(j - 1))
         IN  OAdd(sm(nt), OScale(b, OPowI(h, order + step * nt)))])
OutOf(ww, ss) ==
       TLCEval([t \in 1..NumOut(numterms, S) |-> OSumSeq([k \in 1..(nt + 1) |-> OMul(ww[k], ss[t + k - 1])], 1, nt + 1)])

LsStd == {R(1), Q(-3, 2)}
LsOne == {Q(-3, 2)}
Init == /\ rk \in RatioKeys /\ step \in 1..4 /\ order \in 1..4 /\ numterms \in 0..3 /\ S \in 1..6
        /\ L \in Ls /\ b \in {Zero, R(2)}
        /\ w = W /\ sq = SeqV /\ out = OutOf(w, sq)
Next == UNCHANGED vars

Usable == AllOValid(w) /\ AllOValid(sq) /\ AllOValid(out)
InvDefining == AllOValid(w) =>
                  /\ SumToOne(w)
                  /\ \A j \in 1..nt : LET tj == Nodes(r, step, order, nt)[j] IN OValid(tj) => Annihilates(w, tj)
InvModelledRemoved == (Usable /\ b = Zero) => \A t \in 1..Len(out) : out[t] = ORat(L)
InvCount == NumOut(numterms, S) >= 1 /\ NumOut(numterms, S) = S - nt

Rec == [rk |-> rk, step |-> step, order |-> order, numterms |-> numterms, S |-> S, L |-> L, b |-> b,
        nt |-> nt, w |-> w, seq |-> sq, out |-> out, usable |-> Usable]
Emit == EmitOn => PrintT(<<"@@", ToJson(Rec)>>)
=============================================================================
