----------------------------- MODULE MC_Honesty -----------------------------
(* Synthetic derivative-estimate sequences with a known limit, for the honesty clause of C02 at *)
(* the extrapolation stage:                                                                      *)
(*    v_i = L + sum_{j<nt} a_j h_i^(order + step*j) + b h_i^(order + step*(nt + dq)) + nu (-1)^i 2^-e,*)
(*    h_i = 2^-i, i = 0..S-1                                                                      *)
(* i.e. the error powers the Richardson stage models, one power it does not, and an alternating  *)
(* rounding-like perturbation.  Since h_i -> 0 the limit is L (that is the only "answer" needed); *)
(* all data are dyadic so the floating-point sequence is exact.  TLC enumerates the parameters.   *)
EXTENDS Integers, TLC, Json
CONSTANT EmitOn
VARIABLES S, order, step, nt, dq, b, nu, e, L
vars == <<S, order, step, nt, dq, b, nu, e, L>>
Init == /\ S \in {3, 4, 5, 8, 12} /\ order \in {1, 2, 4} /\ step \in {1, 2, 4} /\ nt = 2 /\ dq \in {0, 1}
        /\ b \in {0, 1, -3} /\ nu \in {0, 1} /\ e \in {30, 44} /\ L \in {0, 1, -5}
Next == UNCHANGED vars
InvLimit == TRUE
Emit == EmitOn => PrintT(<<"@@", ToJson([S |-> S, order |-> order, step |-> step, nt |-> nt, dq |-> dq, b |-> b, nu |-> nu, e |-> e, L |-> L])>>)
=============================================================================
