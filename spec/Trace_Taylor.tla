----------------------------- MODULE Trace_Taylor -----------------------------
(* Trace validation of the Taylor radius search (hook H4): every recorded iteration must be a   *)
(* step of TaylorFFT for SOME outcome of the numeric predicates, and must leave the model in     *)
(* the recorded bookkeeping state; the final record (circles, converged) must match too.         *)
EXTENDS TaylorFFT, Json, IOUtils, Sequences
Traces == JsonDeserialize(IOEnv.TRACE_FILE).traces
VARIABLES t, l
tvars == <<vars, t, l>>
Ev == Traces[t].ev
Hd == Traces[t].hd

TraceInit == /\ t \in 1..Len(Traces) /\ l = 1
             /\ maxit = Hd.max_iter /\ minit = Hd.min_iter /\ nex = Hd.num_extrap
             /\ i = 0 /\ circles = 0 /\ dirchg = 0 /\ prev = "none" /\ degen = FALSE /\ numchg = 0 /\ sqrts = 0
             /\ pc = "loop"
TraceNext ==
  /\ l <= Len(Ev)
  /\ LET e == Ev[l] IN
       /\ i = e.i
       /\ \E ns \in BOOLEAN, dg \in BOOLEAN : Iterate(ns, dg)
       /\ numchg' = e.numchg
       /\ (pc' = "converged") = e.converged
       /\ (~e.converged => degen' = e.degenerate /\ dirchg' = e.dirchg /\ prev' = Dir(e.needs_smaller))
  /\ l' = l + 1 /\ t' = t
TraceSpec == TraceInit /\ [][TraceNext]_tvars
Finished == /\ l = Len(Ev) + 1 /\ Done
            /\ circles = Hd.circles /\ (pc = "converged") = Hd.converged /\ degen = Hd.degenerate
Emit == Finished => PrintT(<<"@@", ToJson([tid |-> t, n |-> Len(Ev)])>>)
=============================================================================
