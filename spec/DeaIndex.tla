------------------------------ MODULE DeaIndex ------------------------------
(***************************************************************************)
(* Data-free index model of numdifftools.extrapolation.Dea (the streaming  *)
(* QUADPACK qelg port).  The numeric branch outcomes (all three last       *)
(* elements agree / two elements agree or irregular behaviour / neither)   *)
(* are environment choices, so the model OVER-approximates the code: if no *)
(* behaviour of the model violates an index obligation then no input       *)
(* sequence can make the code raise or read/write outside the table, for   *)
(* the table sizes explored.                                               *)
(*                                                                         *)
(* epstab has limexp+5 cells: cells 0..limexp+1 hold the two lower         *)
(* diagonals, the last three cells are res3la.  Every array access of      *)
(* Dea.__call__/_dea/_shift_table is an explicit obligation below.         *)
(*                                                                         *)
(* CapOnAllConverged = FALSE is the pinned upstream code (the all-converged*)
(* exit skipped the table-size cap and the shift); TRUE is the code with   *)
(* the fix: commit.                                                        *)
(***************************************************************************)
EXTENDS Integers, TLC
CONSTANTS LimExps, CapOnAllConverged
VARIABLES limexp, n, nres, ok, last
vars == <<limexp, n, nres, ok, last>>

Size(L) == L + 5
IMin(a, b) == IF a < b THEN a ELSE b
IMax(a, b) == IF a > b THEN a ELSE b

\* number of indices lo, lo+2, ... < hi that exist in an array of `size` cells (numpy slice clipping)
CountStep2(lo, hi, size) ==
  LET h == IMin(hi, size) IN IF h <= lo THEN 0 ELSE (h - lo + 1) \div 2
CountStep1(lo, hi, size) ==
  LET h == IMin(hi, size) IN IF h <= lo THEN 0 ELSE h - lo

\* _shift_table(epstab, nn, newelm, oldn): both slice assignments must have equal lengths
ShiftOK(L, nn, newelm, oldn) ==
  LET i0 == oldn % 2   iN == 2 * newelm + 2 IN
  /\ CountStep2(i0, iN, Size(L)) = CountStep2(i0 + 2, iN + 2, Size(L))
  /\ (oldn # nn =>
        /\ oldn - nn >= 0
        /\ CountStep1(0, nn + 1, Size(L)) = CountStep1(oldn - nn, oldn - nn + nn + 1, Size(L)))

\* the relation "one call of Dea.__call__": from table index nIn with outcome (kind, i) to nOut.
\* kind: "first" (n < 2, no extrapolation), "all", "any", "none"
Outcomes(nIn) ==
  IF nIn < 2 THEN {<<"first", 0>>}
  ELSE {<<"none", nIn \div 2>>} \cup {<<k, i>> : k \in {"all", "any"}, i \in 0..((nIn \div 2) - 1)}

MidN(nIn, kind, i) == IF kind = "any" THEN 2 * i ELSE nIn
DoesCap(kind) == kind # "all" \/ CapOnAllConverged
Capped(L, nm, kind) == IF DoesCap(kind) /\ nm = L - 1 THEN L - 2 ELSE nm
NOut(L, nIn, kind, i) == IF kind = "first" THEN nIn + 1 ELSE Capped(L, MidN(nIn, kind, i), kind) + 1

\* obligations of one call
CallOK(L, nIn, kind, i) ==
  /\ nIn >= 0 /\ nIn < Size(L)                          \* epstab[n] = s_value
  /\ kind # "first" =>
       /\ nIn + 2 <= L + 1                              \* epstab[n+2] stays inside the table region
       /\ \A j \in 0..IMin(i, (nIn \div 2) - 1) :       \* loop reads epstab[k1-2], [k1-1], [k1], [k1+2]
             nIn - 2 * j - 2 >= 0 /\ nIn - 2 * j + 2 <= L + 1
       /\ DoesCap(kind) => ShiftOK(L, Capped(L, MidN(nIn, kind, i), kind), nIn \div 2, nIn)

\* the table size an object reports for a requested limexp ("the maximum number of elements the epsilon table can contain"):
\* the next odd number, never less than what was asked for
TableSize(req) == 2 * (req \div 2) + 1
ASSUME \A r \in 3..61 : TableSize(r) >= r /\ TableSize(r) % 2 = 1 /\ TableSize(r) <= r + 1
Init == limexp \in LimExps /\ n = 0 /\ nres = 0 /\ ok = TRUE /\ last = <<"init", 0>>

Call(kind, i) ==
  /\ ok
  /\ <<kind, i>> \in Outcomes(n)
  /\ ok' = CallOK(limexp, n, kind, i)
  /\ n' = IF ok' THEN NOut(limexp, n, kind, i) ELSE n
  /\ nres' = IF kind = "first" THEN nres ELSE IMin(nres + 1, 3)
  /\ last' = <<kind, i>>
  /\ UNCHANGED limexp

Next == \E kind \in {"first", "all", "any", "none"}, i \in 0..((limexp + 5) \div 2) : Call(kind, i)
Spec == Init /\ [][Next]_vars

\* C14: "Dea accepts sequences of any length for any table size limexp >= 3 without raising"
NoIndexError == ok
TableIndexBounded == n <= limexp - 1 \/ ~ok
TypeOK == n \in 0..(limexp + 6) /\ nres \in 0..3
=============================================================================
