----------------------------- MODULE Trace_Eval -----------------------------
(***************************************************************************)
(* Trace validation of function evaluations (C05, and the argument         *)
(* forwarding part of C08).  The harness wraps the user function, and      *)
(* projects every argument f received onto                                 *)
(*   c  : the coordinates of x that differ from x (1-based, increasing)    *)
(*   u  : per touched coordinate the unit  delta_c / step_i[c]  as a code  *)
(*        1:+1 2:-1 3:+2 4:-2 5:+i 6:-i 7:+w 8:-w 9:1+i 10:-1+i  0:none   *)
(*   i  : the index of the generated step that was used (1 = first)        *)
(*   re : 1 iff the real part of the argument is bitwise x                 *)
(*   jc, ji : bicomplex second component: coordinates carrying +step_ji    *)
(*   tok: 1 iff the call's extra args/kwds arrived unchanged               *)
(*   alts: every consistent decomposition <<i, u, ji>> of the offset: it   *)
(*        is not unique when a unit ratio coincides with the step ratio    *)
(*        (2 h[i+1] = h[i] for step ratio 2); (i, u, ji) above is the      *)
(*        first one.  What was not logged is chosen here: an event is      *)
(*        read with the first decomposition that is admissible.            *)
(* One trace = one call of a derivative object.  This module decides       *)
(* whether each recorded evaluation is a term of the stencil the           *)
(* specification (Rules.tla + the Hessian table below) assigns to the      *)
(* configuration, and evaluates the one-sidedness / symmetry / imaginary-  *)
(* only / locality invariants on every prefix.                             *)
(***************************************************************************)
EXTENDS Rules, Json, IOUtils, FiniteSets

Data   == JsonDeserialize(IOEnv.TRACE_FILE)
Traces == Data.traces

VARIABLES t, l, bag, xevals
vars == <<t, l, bag, xevals>>

Cfg == Traces[t].cfg
Ev  == Traces[t].ev

\* ---- unit codes
UnitCode(be) ==
  CASE be = OOne -> 1 [] be = OMinus -> 2 [] be = OInt(2) -> 3 [] be = OInt(-2) -> 4
    [] be = OI -> 5 [] be = ONeg(OI) -> 6 [] be = OW -> 7 [] be = OWNeg -> 8 [] OTHER -> 0
NegUnit(u) == CASE u = 1 -> 2 [] u = 2 -> 1 [] u = 3 -> 4 [] u = 4 -> 3 [] u = 5 -> 6 [] u = 6 -> 5
                [] u = 7 -> 8 [] u = 8 -> 7 [] OTHER -> 0
\* sign of the real part of the offset carried by a unit code
ReSign(u) == CASE u \in {1, 3, 7, 9} -> 1 [] u \in {2, 4, 8, 10} -> -1 [] OTHER -> 0
ImagOnlyUnit(u) == u \in {5, 6}

\* ---- the stencil a configuration is entitled to
RuleName(cfg) ==
  IF cfg.m = "multicomplex" THEN (IF cfg.n > 1 THEN "_multicomplex2" ELSE "_multicomplex")
  ELSE IF cfg.cls = "Hessdiag" /\ cfg.m = "central2" THEN "_central2"
  ELSE DiffName(cfg.m, cfg.n, cfg.o)

ScalarUnits(name) ==
  IF name \in {"_multicomplex", "_multicomplex2"} THEN {5}
  ELSE LET st == Stencil(name) IN {UnitCode(st.terms[j].beta) : j \in 1..Len(st.terms)}

\* Hessian stencils (Ridout 2009 eq. 7-10, central2, bicomplex): admissible unit tuples
HessOne(m) == CASE m = "central" -> {3, 4} [] m = "central2" -> {1, 2, 3, 4}
                [] m = "forward" -> {1, 3} [] m = "backward" -> {2, 4}
                [] m = "complex" -> {9, 10} [] OTHER -> {}
HessTwo(m) == CASE m = "central" -> {<<1, 1>>, <<1, 2>>, <<2, 1>>, <<2, 2>>}
                [] m = "central2" -> {<<1, 1>>, <<2, 2>>}
                [] m = "forward" -> {<<1, 1>>} [] m = "backward" -> {<<2, 2>>}
                [] m = "complex" -> {<<5, 1>>, <<5, 2>>, <<1, 5>>, <<2, 5>>}
                [] OTHER -> {}

IsMulti(cfg) == cfg.m = "multicomplex"

Admissible(cfg, e) ==
  /\ e.tok = 1
  /\ IF Len(e.c) = 0 /\ Len(e.jc) = 0
     THEN TRUE                                   \* f(x) itself: admissible for every method
     ELSE /\ e.i \in 1..cfg.N                    \* a generated step (locality: at most the largest)
          /\ \A j \in 1..Len(e.c) : e.c[j] \in 1..cfg.dim
          /\ IF cfg.cls = "Hessian"
             THEN IF IsMulti(cfg)
                  THEN Len(e.c) = 1 /\ e.u = <<5>> /\ Len(e.jc) = 1 /\ e.ji = e.i /\ e.c[1] <= e.jc[1]
                  ELSE /\ Len(e.jc) = 0
                       /\ \/ Len(e.c) = 1 /\ e.u[1] \in HessOne(cfg.m)
                          \/ Len(e.c) = 2 /\ e.c[1] < e.c[2] /\ <<e.u[1], e.u[2]>> \in HessTwo(cfg.m)
             ELSE /\ Len(e.c) = 1                \* one coordinate at a time
                  /\ e.u[1] \in ScalarUnits(RuleName(cfg))
                  /\ IF RuleName(cfg) = "_multicomplex2"
                     THEN e.jc = e.c /\ e.ji = e.i
                     ELSE Len(e.jc) = 0

\* resolve the decomposition: the first alternative under which the event is admissible (the event as logged if none is)
WithAlt(e, a) == [e EXCEPT !.i = e.alts[a][1], !.u = e.alts[a][2], !.ji = e.alts[a][3]]
Resolve(cfg, e) ==
  IF \E a \in 1..Len(e.alts) : Admissible(cfg, WithAlt(e, a))
  THEN WithAlt(e, CHOOSE a \in 1..Len(e.alts) : Admissible(cfg, WithAlt(e, a)) /\ \A b \in 1..(a - 1) : ~Admissible(cfg, WithAlt(e, b)))
  ELSE e

Key(e) == <<e.c, e.u, e.i, e.jc>>
NegKey(k) == <<k[1], [j \in 1..Len(k[2]) |-> NegUnit(k[2][j])], k[3], k[4]>>

TraceInit == t \in 1..Len(Traces) /\ l = 1 /\ bag = [k \in {} |-> 0] /\ xevals = 0

Consume ==
  /\ l <= Len(Ev)
  /\ LET e == Resolve(Cfg, Ev[l]) IN
       /\ Admissible(Cfg, e)
       /\ IF Len(e.c) = 0 /\ Len(e.jc) = 0
          THEN xevals' = xevals + 1 /\ bag' = bag
          ELSE /\ xevals' = xevals
               /\ bag' = IF Key(e) \in DOMAIN bag THEN [bag EXCEPT ![Key(e)] = @ + 1]
                         ELSE bag @@ (Key(e) :> 1)
  /\ l' = l + 1
  /\ t' = t

TraceNext == Consume
TraceSpec == TraceInit /\ [][TraceNext]_vars

Finished == l = Len(Ev) + 1

\* ---- the property's clauses as invariants over every consumed prefix
InvForwardNeverBelow ==
  Cfg.m = "forward" => \A k \in DOMAIN bag : \A j \in 1..Len(k[2]) : ReSign(k[2][j]) >= 0
InvBackwardNeverAbove ==
  Cfg.m = "backward" => \A k \in DOMAIN bag : \A j \in 1..Len(k[2]) : ReSign(k[2][j]) <= 0
ImagOnlyCfg == Cfg.m = "multicomplex" \/ (Cfg.m = "complex" /\ Cfg.cls # "Hessian" /\ RuleName(Cfg) = "_complex")
InvImagOnly ==
  ImagOnlyCfg => /\ \A k \in DOMAIN bag : \A j \in 1..Len(k[2]) : ImagOnlyUnit(k[2][j])
                 /\ \A j \in 1..(l - 1) : Ev[j].re = 1
InvLocality ==
  \A k \in DOMAIN bag : Len(k[1]) <= (IF Cfg.cls = "Hessian" THEN 2 ELSE 1)
\* central: evaluations come in pairs symmetric about x (checked when the call has returned)
InvCentralSymmetric ==
  (Finished /\ Cfg.partial = 0 /\ Cfg.m \in {"central", "central2"}) =>      \* partial = 1: the call raised part-way
      \A k \in DOMAIN bag : NegKey(k) \in DOMAIN bag /\ bag[NegKey(k)] = bag[k]

\* acceptance: a trace is accepted iff TLC reaches the state that has consumed every event
Emit == Finished => PrintT(<<"@@", ToJson([tid |-> t, n |-> Len(Ev), x |-> xevals])>>)
=============================================================================
