----------------------------- MODULE RichardsonX -----------------------------
(***************************************************************************)
(* Richardson extrapolation (numdifftools.extrapolation.Richardson).       *)
(* For step ratio r, exponent spacing `step`, leading `order` and nt terms *)
(* the weights w_0..w_nt are DEFINED by                                    *)
(*      sum_i w_i = 1,   sum_i w_i t_j^i = 0,  t_j = r^-(order + step*j),  *)
(* j = 0..nt-1, i.e. they are the coefficients of                          *)
(*      W(t) = prod_j (t - t_j)/(1 - t_j).                                 *)
(* Arithmetic is over Q(w) (Omega8) so that real, imaginary (r = 2i) and   *)
(* spiral (r = 2w) ratios are covered by one definition.                   *)
(* __call__ on a sequence of length S uses nt = min(num_terms, S-1) terms, *)
(* returns S - nt values, value[t] = sum_k w_k seq[t+k].                   *)
(***************************************************************************)
EXTENDS Omega8, TLC

RECURSIVE OPowI(_, _)
OPowI(a, k) == IF k = 0 THEN OOne ELSE OMul(a, OPowI(a, k - 1))

Nodes(r, step, order, nt) == [j \in 1..nt |-> OInv(OPowI(r, order + step * (j - 1)))]

OPMulLin(p, a) ==   \* p(t) * (t - a)
  TLCEval([i \in 1..(Len(p) + 1) |->
     OSub(IF i > 1 THEN p[i - 1] ELSE OZero, IF i <= Len(p) THEN OMul(a, p[i]) ELSE OZero)])
OPScale(p, c) == TLCEval([i \in 1..Len(p) |-> OMul(c, p[i])])

RECURSIVE WAcc(_, _, _)
WAcc(t, j, p) == IF j > Len(t) THEN p
                 ELSE WAcc(t, j + 1, OPScale(OPMulLin(p, t[j]), OInv(OSub(OOne, t[j]))))
Weights(r, step, order, nt) == WAcc(Nodes(r, step, order, nt), 1, <<OOne>>)

TermsUsed(numterms, S) == IF numterms < S - 1 THEN numterms ELSE S - 1
NumOut(numterms, S) == S - TermsUsed(numterms, S)

OSumSeq(f, lo, hi) == LET RECURSIVE acc(_)
                          acc(i) == IF i < lo THEN OZero ELSE OAdd(acc(i - 1), f[i])
                      IN  acc(hi)
\* requirement the definition must meet (checked by TLC as a theorem on every instance)
SumToOne(w) == OSumSeq(w, 1, Len(w)) = OOne
Annihilates(w, tj) ==      \* sum_i w_i tj^i = 0
  LET RECURSIVE h(_)
      h(i) == IF i > Len(w) THEN OZero ELSE OAdd(w[i], OMul(tj, h(i + 1)))
  IN  h(1) = OZero
AllOValid(s) == \A i \in 1..Len(s) : OValid(s[i])
=============================================================================
