------------------------------- MODULE MC_Multi -------------------------------
(* Multivariate test functions for C03 / C04 / C19 with their exact first and second derivatives *)
(* (MultiJets.tla).  A component function, in u = x - x0, is                                      *)
(*     F(u) = c0 + g0.u + u'Qu/2 + sum_t w_t f_t(a_t.u) + wp * f_p(ap.u) * f_q(aq.u)              *)
(* with small integer data produced from pattern numbers, so every output component of a         *)
(* Jacobian case is a different function and every entry of an affine map is distinct.           *)
EXTENDS MultiJets, Json
CONSTANTS Ns, Ms, Ks, EmitOn
VARIABLES what, n, m, k, kind, p
vars == <<what, n, m, k, kind, p>>

Kinds == {"affine", "quadratic", "smooth", "product"}
Fns == <<"exp", "sin", "cos", "tanh", "log1p", "expm1", "arctan", "cosh">>

PatVec(d, s, t) == [j \in 1..d |-> R(((j * s + t) % 5) - 2)]
NonZeroVec(d, s, t) == IF \A j \in 1..d : PatVec(d, s, t)[j] = Zero THEN [j \in 1..d |-> R(1)] ELSE PatVec(d, s, t)
\* distinct entries for affine maps: entry (r, j) = 7 r + j (+ sign pattern)
AffVec(d, r) == [j \in 1..d |-> R((7 * r + j) * (IF (r + j) % 3 = 0 THEN -1 ELSE 1))]
SymQ(d, s) == [i \in 1..d |-> [j \in 1..d |-> R((((i + j) * s + i * j) % 5) - 2)]]

Desc(d, r, kd, s) ==      \* description of component r
  [c0 |-> R(r % 3),
   lin |-> IF kd = "affine" THEN AffVec(d, r) ELSE PatVec(d, s + r, r),
   Q |-> IF kd = "affine" THEN ZeroMat(d) ELSE SymQ(d, s + r),
   terms |-> IF kd \in {"smooth", "product"}
             THEN << [w |-> Q(r + 1, 2), fn |-> Fns[((r + s) % 8) + 1], a |-> NonZeroVec(d, s + 1, r)],
                     [w |-> R(-1), fn |-> Fns[((r + s + 3) % 8) + 1], a |-> NonZeroVec(d, s + 2, r + 1)] >>
             ELSE << >>,
   prod |-> IF kd = "product"
            THEN << [w |-> R(2), fn1 |-> Fns[((r + 2 * s) % 8) + 1], a1 |-> NonZeroVec(d, s + 3, r),
                     fn2 |-> Fns[((r + s + 5) % 8) + 1], a2 |-> NonZeroVec(d, s + 4, r + 2)] >>
            ELSE << >>]

JetOf(ds) ==
  LET d == Len(ds.lin)
      base == MJAdd(MJAdd(MJConst(d, ds.c0), Lin(ds.lin)), Quad(ds.Q))
      RECURSIVE addT(_, _)
      addT(j, i) == IF i > Len(ds.terms) THEN j
                    ELSE addT(MJAdd(j, MJScale(ds.terms[i].w, Compose(ds.terms[i].fn, Lin(ds.terms[i].a)))), i + 1)
      withT == addT(base, 1)
  IN  IF ds.prod = << >> THEN withT
      ELSE LET pr == ds.prod[1]
           IN  MJAdd(withT, MJScale(pr.w, MJMul(Compose(pr.fn1, Lin(pr.a1)), Compose(pr.fn2, Lin(pr.a2)))))

Init == /\ what \in {"jac", "hess"} /\ n \in Ns /\ kind \in Kinds /\ p \in 1..2
        /\ IF what = "jac" THEN m \in Ms /\ k \in Ks ELSE m = 1 /\ k = 0
Next == UNCHANGED vars

NComp == IF k = 0 THEN m ELSE m * k
Comps == [r \in 1..NComp |-> Desc(n, r, kind, p)]
Jets == TLCEval([r \in 1..NComp |-> JetOf(Comps[r])])

InvSymmetric == what = "hess" => Symmetric(Jets[1].H)
\* the result shape the property demands
ResultShape == IF what = "hess" THEN <<n, n>> ELSE IF k = 0 THEN <<m, n>> ELSE <<m, n, k>>
\* index model of the Jacobian result: entry [i, j, l] (0-based) is d F_{i,l} / d x_j, component r = i*k + l + 1
CompOf(i, l) == IF k = 0 THEN i + 1 ELSE i * k + l + 1

Rec == LET J == Jets IN
       [what |-> what, n |-> n, m |-> m, k |-> k, kind |-> kind, p |-> p, shape |-> ResultShape,
        comps |-> Comps,
        vals |-> [r \in 1..NComp |-> J[r].v],
        grads |-> [r \in 1..NComp |-> J[r].g],
        hess |-> IF what = "hess" THEN J[1].H ELSE << >>]
Emit == EmitOn => PrintT(<<"@@", ToJson(Rec)>>)
=============================================================================
