CONSTANT K = 10
INIT Init
NEXT Next
CHECK_DEADLOCK FALSE
