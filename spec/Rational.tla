------------------------------ MODULE Rational ------------------------------
(***************************************************************************)
(* Exact rational arithmetic for TLC.  A rational is <<num, den>> with     *)
(* den > 0 and gcd(|num|, den) = 1.  TLC integers are 32 bit, so every     *)
(* operator cross-reduces before multiplying and `Fits` lets a spec skip   *)
(* (and count) an instance instead of overflowing.                          *)
(***************************************************************************)
EXTENDS Integers, Sequences

Abs(n) == IF n < 0 THEN -n ELSE n

GCD(a, b) ==
  LET g[x \in Nat, y \in Nat] == IF y = 0 THEN x ELSE g[y, x % y]
  IN  g[Abs(a), Abs(b)]

RECURSIVE Gcd(_, _)
Gcd(a, b) == IF b = 0 THEN Abs(a) ELSE Gcd(b, a % b)

\* normalise an arbitrary pair (den # 0)
Norm(n, d) ==
  LET g == Gcd(Abs(n), Abs(d))
      s == IF d < 0 THEN -1 ELSE 1
  IN  IF n = 0 THEN <<0, 1>> ELSE <<s * (n \div g), s * (d \div g)>>

R(n)       == <<n, 1>>
Q(n, d)    == Norm(n, d)
Zero       == <<0, 1>>
One        == <<1, 1>>
Num(q)     == q[1]
Den(q)     == q[2]

IsRat(q)   == q[2] > 0 /\ Gcd(Abs(q[1]), q[2]) = 1

RNeg(a)    == <<-a[1], a[2]>>
RAdd(a, b) ==
  LET g  == Gcd(a[2], b[2])
      da == a[2] \div g
      db == b[2] \div g
  IN  Norm(a[1] * db + b[1] * da, da * b[2])
RSub(a, b) == RAdd(a, RNeg(b))
RMul(a, b) ==
  LET g1 == Gcd(Abs(a[1]), b[2])
      g2 == Gcd(Abs(b[1]), a[2])
  IN  IF a[1] = 0 \/ b[1] = 0 THEN Zero
      ELSE <<(a[1] \div g1) * (b[1] \div g2), (a[2] \div g2) * (b[2] \div g1)>>
RInv(a)    == IF a[1] < 0 THEN <<-a[2], -a[1]>> ELSE <<a[2], a[1]>>
RDiv(a, b) == RMul(a, RInv(b))
RIsZero(a) == a[1] = 0
RSign(a)   == IF a[1] > 0 THEN 1 ELSE IF a[1] < 0 THEN -1 ELSE 0
RAbs(a)    == <<Abs(a[1]), a[2]>>
RLt(a, b)  == RSign(RSub(a, b)) < 0
RLeq(a, b) == RSign(RSub(a, b)) <= 0
REq(a, b)  == a = b
RMax(a, b) == IF RLt(a, b) THEN b ELSE a
RMin(a, b) == IF RLt(a, b) THEN a ELSE b
RMulInt(a, k) == RMul(a, R(k))
RDivInt(a, k) == RMul(a, Q(1, k))

RECURSIVE RPow(_, _)
RPow(a, k) == IF k = 0 THEN One
              ELSE IF k < 0 THEN RPow(RInv(a), -k)
              ELSE RMul(a, RPow(a, k - 1))

RECURSIVE IPow(_, _)
IPow(b, k) == IF k = 0 THEN 1 ELSE b * IPow(b, k - 1)

RECURSIVE Fact(_)
Fact(k) == IF k <= 1 THEN 1 ELSE k * Fact(k - 1)

Limit == 1073741824   \* 2^30
Fits(q) == Abs(q[1]) < 32768 * 32768 /\ q[2] < 32768 * 32768
Small(q, b) == Abs(q[1]) <= b /\ q[2] <= b

RECURSIVE RSumSeq(_)
RSumSeq(s) == IF s = <<>> THEN Zero ELSE RAdd(Head(s), RSumSeq(Tail(s)))

\* sum of f[i] over a finite set of integers / indices given as a sequence domain
RSumFun(f, lo, hi) ==
  LET acc[i \in (lo - 1)..hi] == IF i < lo THEN Zero ELSE RAdd(acc[i - 1], f[i])
  IN  acc[hi]

\* floor and comparison helpers
RFloor(a) == IF a[1] >= 0 THEN a[1] \div a[2]
             ELSE -(((-a[1]) + a[2] - 1) \div a[2])
=============================================================================
