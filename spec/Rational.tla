------------------------------ MODULE Rational ------------------------------
(***************************************************************************)
(* Exact rational arithmetic for TLC.  A rational is <<num, den>> with     *)
(* den > 0 and gcd(|num|, den) = 1.  TLC integers are 32 bit: every        *)
(* operator cross-reduces before multiplying and CHECKS each product and   *)
(* sum; an operation that would overflow returns NaR = <<0, 0>> ("not a    *)
(* rational"), which propagates.  A specification tests Valid(x) and skips *)
(* (and counts) such an instance instead of aborting or silently wrapping. *)
(***************************************************************************)
EXTENDS Integers, Sequences

Abs(n) == IF n < 0 THEN -n ELSE n
MaxInt == 2147483647

RECURSIVE Gcd(_, _)
Gcd(a, b) == IF b = 0 THEN Abs(a) ELSE Gcd(b, a % b)

NaR        == <<0, 0>>
IsNaR(a)   == a[2] = 0
Valid(a)   == a[2] # 0

MulFits(x, y) == x = 0 \/ y = 0 \/ Abs(x) <= MaxInt \div Abs(y)
AddFits(x, y) == (x >= 0 /\ y <= 0) \/ (x <= 0 /\ y >= 0) \/ Abs(x) <= MaxInt - Abs(y)

\* normalise an arbitrary pair (den # 0)
Norm(n, d) ==
  IF d = 0 THEN NaR
  ELSE LET g == Gcd(Abs(n), Abs(d))
           s == IF d < 0 THEN -1 ELSE 1
       IN  IF n = 0 THEN <<0, 1>> ELSE <<s * (n \div g), s * (d \div g)>>

R(n)       == <<n, 1>>
Q(n, d)    == Norm(n, d)
Zero       == <<0, 1>>
One        == <<1, 1>>
Num(q)     == q[1]
Den(q)     == q[2]

IsRat(q)   == q[2] > 0 /\ Gcd(Abs(q[1]), q[2]) = 1

RNeg(a)    == IF IsNaR(a) THEN NaR ELSE <<-a[1], a[2]>>
RAdd(a, b) ==
  IF IsNaR(a) \/ IsNaR(b) THEN NaR
  ELSE LET g  == Gcd(a[2], b[2])
           da == a[2] \div g
           db == b[2] \div g
       IN  IF ~(MulFits(a[1], db) /\ MulFits(b[1], da) /\ MulFits(da, b[2])) THEN NaR
           ELSE IF ~AddFits(a[1] * db, b[1] * da) THEN NaR
           ELSE Norm(a[1] * db + b[1] * da, da * b[2])
RSub(a, b) == RAdd(a, RNeg(b))
RMul(a, b) ==
  IF IsNaR(a) \/ IsNaR(b) THEN NaR
  ELSE IF a[1] = 0 \/ b[1] = 0 THEN Zero
  ELSE LET g1 == Gcd(Abs(a[1]), b[2])
           g2 == Gcd(Abs(b[1]), a[2])
           n1 == a[1] \div g1  n2 == b[1] \div g2
           d1 == a[2] \div g2  d2 == b[2] \div g1
       IN  IF MulFits(n1, n2) /\ MulFits(d1, d2) THEN <<n1 * n2, d1 * d2>> ELSE NaR
RInv(a)    == IF IsNaR(a) \/ a[1] = 0 THEN NaR
              ELSE IF a[1] < 0 THEN <<-a[2], -a[1]>> ELSE <<a[2], a[1]>>
RDiv(a, b) == RMul(a, RInv(b))
RIsZero(a) == Valid(a) /\ a[1] = 0
RSign(a)   == IF a[1] > 0 THEN 1 ELSE IF a[1] < 0 THEN -1 ELSE 0
RAbs(a)    == IF IsNaR(a) THEN NaR ELSE <<Abs(a[1]), a[2]>>
\* comparisons are FALSE when an operand (or the difference) is not representable
RLt(a, b)  == LET d == RSub(a, b) IN Valid(d) /\ d[1] < 0
RLeq(a, b) == LET d == RSub(a, b) IN Valid(d) /\ d[1] <= 0
REq(a, b)  == a = b
RMax(a, b) == IF IsNaR(a) \/ IsNaR(b) THEN NaR ELSE IF RLt(a, b) THEN b ELSE a
RMin(a, b) == IF IsNaR(a) \/ IsNaR(b) THEN NaR ELSE IF RLt(a, b) THEN a ELSE b
RMulInt(a, k) == RMul(a, R(k))
RDivInt(a, k) == RMul(a, Q(1, k))
\* |x| <= n/d for small positive n, d without forming a difference
RAbsLeqSmall(x, n, d) == Valid(x) /\ MulFits(Abs(x[1]), d) /\ MulFits(x[2], n) /\ Abs(x[1]) * d <= x[2] * n

RECURSIVE RPow(_, _)
RPow(a, k) == IF k = 0 THEN One
              ELSE IF k < 0 THEN RPow(RInv(a), -k)
              ELSE RMul(a, RPow(a, k - 1))

RECURSIVE IPow(_, _)
IPow(b, k) == IF k = 0 THEN 1 ELSE b * IPow(b, k - 1)

RECURSIVE Fact(_)
Fact(k) == IF k <= 1 THEN 1 ELSE k * Fact(k - 1)

Small(q, b) == Valid(q) /\ Abs(q[1]) <= b /\ q[2] <= b

\* sum of f[i], i in lo..hi
RSumFun(f, lo, hi) ==
  LET RECURSIVE acc(_)
      acc(i) == IF i < lo THEN Zero ELSE RAdd(acc(i - 1), f[i])
  IN  acc(hi)

RFloor(a) == IF a[1] >= 0 THEN a[1] \div a[2]
             ELSE -(((-a[1]) + a[2] - 1) \div a[2])
=============================================================================
