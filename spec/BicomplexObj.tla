---------------------------- MODULE BicomplexObj ----------------------------
(***************************************************************************)
(* A Bicomplex ARRAY as the mutable object it is: three elements, each     *)
(* holding one of a few values (ids 1..NVals, interpreted by the replay    *)
(* driver as bicomplex numbers inside every function's domain).            *)
(*   Apply(f)        evaluates an elementary function / operator - it must *)
(*                   read nothing but the current elements and change none *)
(*   SetItem(k,v,h)  in-place update of one element, by z[k] = w, by the   *)
(*                   slice z[k:k+1] = w or by writing the component arrays *)
(*   SetAll(v)       z.z1 = ..., z.z2 = ... (replaces the component arrays) *)
(* C12 says every function equals the holomorphic extension at its         *)
(* ARGUMENT; for an object with in-place updates the argument is the       *)
(* current content.  The expected result of Apply is therefore             *)
(* [k |-> F(f, cur[k])] - `want` - whatever happened before; a cached      *)
(* modulus / argument that survives an update breaks exactly this.         *)
(***************************************************************************)
EXTENDS Integers, Sequences, TLC, Json
CONSTANTS NVals, Fns, MaxOps, EmitOn
VARIABLES cur, hist, last
vars == <<cur, hist, last>>

Init == cur = [k \in 1..3 |-> 1] /\ hist = <<>> /\ last = [op |-> "init"]
Apply(f) ==
  /\ Len(hist) < MaxOps
  /\ last' = [op |-> "apply", fn |-> f, want |-> cur]        \* ids: the driver maps id -> F(f, value(id))
  /\ hist' = Append(hist, last') /\ UNCHANGED cur
SetItem(k, v, how) ==
  /\ Len(hist) < MaxOps /\ cur[k] # v
  /\ cur' = [cur EXCEPT ![k] = v]
  /\ last' = [op |-> "setitem", k |-> k, v |-> v, how |-> how]
  /\ hist' = Append(hist, last')
SetAll(v) ==
  /\ Len(hist) < MaxOps /\ \E k \in 1..3 : cur[k] # v
  /\ cur' = [k \in 1..3 |-> v]
  /\ last' = [op |-> "setall", v |-> v]
  /\ hist' = Append(hist, last')
Next == \/ \E f \in Fns : Apply(f)
        \/ \E k \in 1..3, v \in 1..NVals, how \in {"index", "slice", "component"} : SetItem(k, v, how)
        \/ \E v \in 1..NVals : SetAll(v)
Spec == Init /\ [][Next]_vars

\* the result of Apply is a function of the current content alone
ApplyReadsCurrent == last.op = "apply" => last.want = cur
\* Apply changes nothing
ApplyIsPure == [][(\E f \in Fns : Apply(f)) => cur' = cur]_vars
Emit == (EmitOn /\ Len(hist) = MaxOps) => PrintT(<<"@@", ToJson([hist |-> hist])>>)
=============================================================================
