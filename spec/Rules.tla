-------------------------------- MODULE Rules --------------------------------
(***************************************************************************)
(* Finite-difference rule selection of numdifftools (LogRule and           *)
(* subclasses), written the way the code computes it ("code-shaped"), next *)
(* to the stencil table of the difference functions and the *requirement*  *)
(* that ties them together: the Taylor signature of the selected quotient  *)
(* must contain exactly the powers of h that the moment matrix of the      *)
(* selected parity class models, the row picked must be the row of h^n,    *)
(* the sign flip must equal the sign of the signature at n, and everything *)
(* the rule does not model must be what the paired Richardson stage        *)
(* removes (leading power method_order, spaced by richardson_step).        *)
(***************************************************************************)
EXTENDS Omega8, TLC

Max(a, b) == IF a > b THEN a ELSE b
Min(a, b) == IF a < b THEN a ELSE b
B(c) == IF c THEN 1 ELSE 0

RuleMethods == {"central", "forward", "backward", "complex"}

----------------------------------------------------------------------------
(* LogRule: discrete dispatch, transcribed property by property *)

ComplexHighOrder(m, n, o) == m = "complex" /\ (n > 1 \/ o >= 4)

RichardsonStep(m, n, o) ==
  CASE m \in {"central", "central2", "multicomplex"} -> 2
    [] m = "complex" -> IF ComplexHighOrder(m, n, o) THEN 4 ELSE 2
    [] OTHER -> 1

MethodOrder(m, n, o) ==
  LET s == RichardsonStep(m, n, o) IN Max((o \div s) * s, s)

ParityComplex(n, mo) ==
  IF n = 1 /\ mo < 4 THEN ((n - 1) % 2) + 1
  ELSE 3 + 2 * B(n % 2 = 1) + B(n % 4 = 3) + B(n % 4 = 0)

Parity(m, n, o) ==
  CASE m \in {"central", "central2"} -> ((n - 1) % 2) + 1
    [] m = "complex" -> ParityComplex(n, MethodOrder(m, n, o))
    [] OTHER -> 0

\* _fd_matrix tables, index = parity
PStep(p)   == <<1, 2, 2, 4, 4, 4, 4>>[p + 1]
POffset(p) == <<1, 1, 2, 2, 4, 1, 3>>[p + 1]
PC0(p)     == <<1, 1, 1, 2, 24, 1, 6>>[p + 1]

NumTerms(m, n, o)  == ((n - 1) + MethodOrder(m, n, o)) \div RichardsonStep(m, n, o)
RuleIndex(m, n, o) == (n - 1) \div RichardsonStep(m, n, o)
Flip(m, n)         == (n % 2 = 0 /\ m = "backward") \/ (m = "complex" /\ (n % 8) \in {3, 4, 5, 6})
FlipSign(m, n)     == IF Flip(m, n) THEN -1 ELSE 1

\* exponents of h modelled by the moment matrix
Exps(m, n, o) ==
  LET p == Parity(m, n, o) IN [j \in 1..NumTerms(m, n, o) |-> POffset(p) + PStep(p) * (j - 1)]

MiddleName(m, n, o) ==
  IF n % 2 = 0 /\ m \in {"central", "complex"} THEN "_even"
  ELSE IF ComplexHighOrder(m, n, o) /\ n % 2 = 1 THEN "_odd"
  ELSE IF m = "multicomplex" /\ n > 1 THEN "2" ELSE ""
LastName(m, n, o) ==
  IF (m = "complex" /\ n % 4 = 0) \/ (ComplexHighOrder(m, n, o) /\ n % 4 = 3) THEN "_higher" ELSE ""
DiffName(m, n, o) == "_" \o m \o MiddleName(m, n, o) \o LastName(m, n, o)

EvalFirstCondition(m, n) ==
  (n % 2 = 0 /\ m \in {"central", "central2"}) \/ m \in {"forward", "backward"}
  \/ (m = "complex" /\ n % 4 = 0)

----------------------------------------------------------------------------
(* Stencils of the scalar difference functions: terms alpha * f(x + beta*h) with alpha, beta   *)
(* in Q(w); `fx` is the coefficient of f(x); `part` says which part of the sum is returned.    *)

T(al, be) == [alpha |-> al, beta |-> be]
OHalf == ORat(Q(1, 2))
OMinus == OInt(-1)
OWNeg == ONeg(OW)

Stencil(name) ==
  CASE name = "_central"       -> [terms |-> <<T(OHalf, OOne), T(ONeg(OHalf), OMinus)>>, fx |-> OZero, part |-> "id"]
    [] name = "_central_even"  -> [terms |-> <<T(OHalf, OOne), T(OHalf, OMinus)>>, fx |-> OMinus, part |-> "id"]
    [] name = "_forward"       -> [terms |-> <<T(OOne, OOne)>>, fx |-> OMinus, part |-> "id"]
    [] name = "_backward"      -> [terms |-> <<T(OMinus, OMinus)>>, fx |-> OOne, part |-> "id"]
    [] name = "_complex"       -> [terms |-> <<T(OOne, OI)>>, fx |-> OZero, part |-> "im"]
    [] name = "_complex_odd"   -> [terms |-> <<T(OScale(Q(1, 2), OW), OW), T(OScale(Q(-1, 2), OW), OWNeg)>>,
                                   fx |-> OZero, part |-> "im"]
    [] name = "_complex_odd_higher" -> [terms |-> <<T(OScale(R(3), OW), OW), T(OScale(R(-3), OW), OWNeg)>>,
                                   fx |-> OZero, part |-> "re"]
    [] name = "_complex_even"  -> [terms |-> <<T(OOne, OW), T(OOne, OWNeg)>>, fx |-> OZero, part |-> "im"]
    [] name = "_complex_even_higher" -> [terms |-> <<T(OInt(12), OW), T(OInt(12), OWNeg)>>,
                                   fx |-> OInt(-24), part |-> "re"]
    \* Hessdiag only (Ridout eq. 8): (f(x+2h)+f(x-2h)+2f(x)-2f(x+h)-2f(x-h))/4
    [] name = "_central2"      -> [terms |-> <<T(ORat(Q(1, 4)), OInt(2)), T(ORat(Q(1, 4)), OInt(-2)),
                                              T(ORat(Q(-1, 2)), OOne), T(ORat(Q(-1, 2)), OMinus)>>,
                                   fx |-> OHalf, part |-> "id"]

StencilNames == {"_central", "_central_even", "_forward", "_backward", "_complex", "_complex_odd",
                 "_complex_odd_higher", "_complex_even", "_complex_even_higher", "_central2"}

\* S_k = part( sum alpha * beta^k ) is the coefficient of f^(k)(x) h^k / k! in the quotient, kept as
\* <<rational, coefficient of 1/sqrt2>>; S_0 also contains the f(x) term.  The signature is built
\* one power at a time (TLC evaluates function constructors lazily, so the model-checking
\* configurations carry the running powers beta^k in the state: one multiplication per step).
KMax == 30

PowInit(st) == [t \in 1..Len(st.terms) |-> OOne]
PowNext(st, pw) == [t \in 1..Len(st.terms) |-> OMul(st.terms[t].beta, pw[t])]

SigAt(st, pw, k) ==
  LET RECURSIVE s(_)
      s(t) == IF t = 0 THEN OZero ELSE OAdd(OMul(st.terms[t].alpha, pw[t]), s(t - 1))
      v == IF k = 0 THEN OAdd(s(Len(st.terms)), st.fx) ELSE s(Len(st.terms))
  IN  [val  |-> IF st.part = "im" THEN OIm(v) ELSE ORe(v),
       rest |-> IF st.part = "id" THEN OIm(v) ELSE <<Zero, Zero>>]

----------------------------------------------------------------------------
(* Requirements linking selection and stencil, for one configuration; S = SigSeries(DiffName) *)

SR(S, k) == S[k + 1].val[1][1]     \* numerator of the rational part; S is a sequence, S[k+1] = S_k

Modelled(m, n, o) == {Exps(m, n, o)[j] : j \in 1..NumTerms(m, n, o)}
LastModelled(m, n, o) == POffset(Parity(m, n, o)) + PStep(Parity(m, n, o)) * (NumTerms(m, n, o) - 1)

\* (0) the quotient is a rational combination of derivatives: no 1/sqrt2 left, no imaginary rest
ReqWellFormed(S) == \A k \in 1..Len(S) : S[k].val[2] = Zero /\ S[k].rest = <<Zero, Zero>>

\* (1) nothing below the first unmodelled power is left out of the moment system,
\*     and the constant term f(x) cancels
ReqModelledCoverPresent(m, n, o, S) ==
  \A k \in 0..LastModelled(m, n, o) : SR(S, k) # 0 => k \in Modelled(m, n, o)

\* (2) every modelled power is really there (otherwise the moment system would fit a ghost)
ReqModelledArePresent(m, n, o, S) == \A k \in Modelled(m, n, o) : SR(S, k) # 0

\* (3) the row that is picked is the row of h^n
ReqRowIsN(m, n, o) ==
  /\ RuleIndex(m, n, o) + 1 \in 1..NumTerms(m, n, o)
  /\ Exps(m, n, o)[RuleIndex(m, n, o) + 1] = n

\* (4) scale and sign: S_n = flip * c_0
ReqScaleSign(m, n, o, S) == S[n + 1].val = <<R(FlipSign(m, n) * PC0(Parity(m, n, o))), Zero>>

\* (5) what is left over is what Richardson is told to remove
FirstUnmodelled(m, n, o, S) ==
  LET cand == {k \in (LastModelled(m, n, o) + 1)..KMax : SR(S, k) # 0}
  IN  IF cand = {} THEN 0 ELSE CHOOSE k \in cand : \A kk \in cand : k <= kk

ReqLeadingIsMethodOrder(m, n, o, S) == FirstUnmodelled(m, n, o, S) - n = MethodOrder(m, n, o)

ReqSpacing(m, n, o, S) ==
  LET fu == FirstUnmodelled(m, n, o, S) s == RichardsonStep(m, n, o)
  IN  /\ PStep(Parity(m, n, o)) = s
      /\ \A k \in fu..KMax : (SR(S, k) # 0) <=> ((k - fu) % s = 0)

\* (6) the first sentence of the property: truncation order at least the *requested* order
ReqOrderHonoured(m, n, o) == MethodOrder(m, n, o) >= o

\* (7) evaluation of f(x) is requested whenever the stencil uses it
ReqEvalFirst(m, n, o) ==
  Stencil(DiffName(m, n, o)).fx # OZero => EvalFirstCondition(m, n)

\* the default step count suffices (C10 coupling): MinStepGenerator.min_num_steps + num_extrap
NumStepDivisor(m, n, o) ==
  CASE m \in {"central", "central2", "multicomplex"} -> 2
    [] m = "complex" -> IF n > 1 \/ o >= 4 THEN 4 ELSE 2
    [] OTHER -> 1
MinNumSteps(m, n, o) == Max((n + o - 1) \div NumStepDivisor(m, n, o), 1)

\* Derivative passes order = method_order to the generator
ReqEnoughSteps(m, n, o) ==
  LET mo == MethodOrder(m, n, o)
  IN  MinNumSteps(m, n, mo) >= NumTerms(m, n, o)


----------------------------------------------------------------------------
(* Where the quotient evaluates f (C05, design level): offsets beta*h of the selected stencil *)
Betas(name) == LET st == Stencil(name) IN {st.terms[j].beta : j \in 1..Len(st.terms)}
IsRealO(b) == b[2] = Zero /\ b[3] = Zero /\ b[4] = Zero
ReqAdmissibleOffsets(m, n, o) ==
  LET bs == Betas(DiffName(m, n, o)) IN
  /\ m = "forward"  => \A b \in bs : IsRealO(b) /\ RSign(b[1]) > 0
  /\ m = "backward" => \A b \in bs : IsRealO(b) /\ RSign(b[1]) < 0
  /\ m = "central"  => \A b \in bs : IsRealO(b) /\ ONeg(b) \in bs
  /\ (m = "complex" /\ n = 1 /\ o < 4) => bs = {OI}          \* real part of every argument is x

----------------------------------------------------------------------------
(* Exact rule weights for a rational step ratio r: row RuleIndex of the inverse of               *)
(*   M[i][j] = c_j t_j^i,  c_j = c_0/k_j!,  t_j = r^(-k_j).                                       *)
(* The weights are the coefficients of W(t) = (1/c_ri) prod_{j # ri} (t - t_j)/(t_ri - t_j).      *)

PolyMulLin(p, a) ==   \* p(t) * (t - a), p a sequence of coefficients (constant first)
  [i \in 1..(Len(p) + 1) |->
     RSub(IF i > 1 THEN p[i - 1] ELSE Zero, IF i <= Len(p) THEN RMul(a, p[i]) ELSE Zero)]

ExactRule(m, n, o, r) ==
  LET e  == Exps(m, n, o)
      nt == NumTerms(m, n, o)
      ri == RuleIndex(m, n, o) + 1
      t  == [j \in 1..nt |-> RPow(r, -e[j])]
      others == [j \in 1..nt |-> j]
      RECURSIVE build(_, _)
      build(j, p) == IF j > nt THEN p
                     ELSE IF j = ri THEN build(j + 1, p)
                     ELSE build(j + 1, [i \in 1..Len(PolyMulLin(p, t[j])) |->
                                          RDiv(PolyMulLin(p, t[j])[i], RSub(t[ri], t[j]))])
      cri == Q(PC0(Parity(m, n, o)), Fact(e[ri]))
      w   == build(1, <<RInv(cri)>>)
  IN  [i \in 1..nt |-> RMulInt(w[i], FlipSign(m, n))]
=============================================================================
