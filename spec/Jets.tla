-------------------------------- MODULE Jets --------------------------------
(***************************************************************************)
(* Truncated power series ("jets") over exact rationals: a jet is a        *)
(* sequence <<a_0, ..., a_K>> standing for sum a_k u^k + O(u^(K+1)).        *)
(* Arithmetic and the elementary functions by their classical Taylor       *)
(* recurrences (obtained from the defining differential equations).  This  *)
(* is the library-independent oracle property C01 names: "truncated        *)
(* Taylor-series arithmetic on the same expression".                       *)
(* Elementary functions are only defined at arguments whose value a_0      *)
(* makes every coefficient rational: 0 for exp, sin, tan, arctan, ...;     *)
(* 1 for log and sqrt and real powers.  Overflow of TLC's 32-bit integers  *)
(* yields NaR coefficients (Rational.tla); such jets are skipped+counted.  *)
(***************************************************************************)
EXTENDS Rational, TLC
CONSTANT K          \* truncation order

Idx == 1..(K + 1)
JZero == [i \in Idx |-> Zero]
JConst(q) == [i \in Idx |-> IF i = 1 THEN q ELSE Zero]
JVar(c) == [i \in Idx |-> IF i = 2 THEN c ELSE Zero]          \* u -> c*u
JValid(a) == \A i \in Idx : Valid(a[i])

JAdd(a, b) == TLCEval([i \in Idx |-> RAdd(a[i], b[i])])
JSub(a, b) == TLCEval([i \in Idx |-> RSub(a[i], b[i])])
JNeg(a)    == TLCEval([i \in Idx |-> RNeg(a[i])])
JScale(q, a) == TLCEval([i \in Idx |-> RMul(q, a[i])])
JAddC(a, q) == TLCEval([i \in Idx |-> IF i = 1 THEN RAdd(a[1], q) ELSE a[i]])

\* sum_{j=lo..hi} f(j)
RSumOp(F(_), lo, hi) ==
  LET RECURSIVE s(_)
      s(j) == IF j > hi THEN Zero ELSE RAdd(F(j), s(j + 1))
  IN  s(lo)

\* Cauchy product (coefficient k, 0-based):  sum_{j=0..k} a_j b_{k-j}
JMul(a, b) ==
  TLCEval([i \in Idx |-> LET k == i - 1 F(j) == RMul(a[j + 1], b[k - j + 1]) IN RSumOp(F, 0, k)])

\* generic builder for recurrences: Step(prefix, k) gives coefficient k from coefficients 0..k-1
RECURSIVE Build(_, _)
Build(Stp(_, _), acc) == IF Len(acc) = K + 1 THEN acc ELSE Build(Stp, Append(acc, Stp(acc, Len(acc))))

\* q = a / b  (b_0 # 0):  q_k = (a_k - sum_{j=1..k} b_j q_{k-j}) / b_0
JDiv(a, b) ==
  LET Stp(q, k) == LET F(j) == RMul(b[j + 1], q[k - j + 1])
                   IN  RDiv(RSub(a[k + 1], RSumOp(F, 1, k)), b[1])
  IN  Build(Stp, <<RDiv(a[1], b[1])>>)

\* derivative-weighted convolution:  (1/k) sum_{j=1..k} j u_j g_{k-j}   (coefficient k of  int u' g)
DConv(u, g, k) == LET F(j) == RMul(RMulInt(u[j + 1], j), g[k - j + 1]) IN RDivInt(RSumOp(F, 1, k), k)
\* a = a0 + int u' g  for a known jet g
JIntegrate(a0, u, g) == TLCEval([i \in Idx |-> IF i = 1 THEN a0 ELSE DConv(u, g, i - 1)])

\* e = exp(u), u_0 = 0:  e' = u' e
JExp(u) == LET Stp(e, k) == LET F(j) == RMul(RMulInt(u[j + 1], j), e[k - j + 1]) IN RDivInt(RSumOp(F, 1, k), k)
           IN  Build(Stp, <<One>>)
JExpm1(u) == JAddC(JExp(u), R(-1))
\* l = log(v), v_0 = 1:  l' = v'/v
JLog(v) == JIntegrate(Zero, [i \in Idx |-> IF i = 1 THEN Zero ELSE v[i]], JDiv(JConst(One), v))
JLog1p(u) == JLog(JAddC(u, One))
\* s = sqrt(v), v_0 = 1:  s_k = (v_k - sum_{j=1..k-1} s_j s_{k-j}) / 2
JSqrt(v) == LET Stp(s, k) == LET F(j) == RMul(s[j + 1], s[k - j + 1])
                             IN  RDivInt(RSub(v[k + 1], RSumOp(F, 1, k - 1)), 2)
            IN  Build(Stp, <<One>>)
\* sin and cos together (u_0 = 0): pairs <<s_k, c_k>>
JSinCos(u) ==
  LET Stp(p, k) == LET Fs(j) == RMul(RMulInt(u[j + 1], j), p[k - j + 1][2])
                       Fc(j) == RMul(RMulInt(u[j + 1], j), p[k - j + 1][1])
                   IN  <<RDivInt(RSumOp(Fs, 1, k), k), RNeg(RDivInt(RSumOp(Fc, 1, k), k))>>
  IN  Build(Stp, <<<<Zero, One>>>>)
JSin(u) == LET p == JSinCos(u) IN [i \in Idx |-> p[i][1]]
JCos(u) == LET p == JSinCos(u) IN [i \in Idx |-> p[i][2]]
JSinhCosh(u) ==
  LET Stp(p, k) == LET Fs(j) == RMul(RMulInt(u[j + 1], j), p[k - j + 1][2])
                       Fc(j) == RMul(RMulInt(u[j + 1], j), p[k - j + 1][1])
                   IN  <<RDivInt(RSumOp(Fs, 1, k), k), RDivInt(RSumOp(Fc, 1, k), k)>>
  IN  Build(Stp, <<<<Zero, One>>>>)
JSinh(u) == LET p == JSinhCosh(u) IN [i \in Idx |-> p[i][1]]
JCosh(u) == LET p == JSinhCosh(u) IN [i \in Idx |-> p[i][2]]
JTan(u)  == JDiv(JSin(u), JCos(u))
JTanh(u) == JDiv(JSinh(u), JCosh(u))
\* inverse functions: a' = u' g(u)
JArctan(u)  == JIntegrate(Zero, u, JDiv(JConst(One), JAddC(JMul(u, u), One)))
JArctanh(u) == JIntegrate(Zero, u, JDiv(JConst(One), JSub(JConst(One), JMul(u, u))))
JArcsin(u)  == JIntegrate(Zero, u, JDiv(JConst(One), JSqrt(JSub(JConst(One), JMul(u, u)))))
JArcsinh(u) == JIntegrate(Zero, u, JDiv(JConst(One), JSqrt(JAddC(JMul(u, u), One))))
\* v^p for rational p, v_0 = 1:  w' = p w v'/v   =>  k w_k = sum_{j=1..k} (p j - (k - j)) v_j w_{k-j}  (v_0 = 1)
JPow(v, p) ==
  LET Stp(w, k) == LET F(j) == RMul(RSub(RMulInt(p, j), R(k - j)), RMul(v[j + 1], w[k - j + 1]))
                   IN  RDivInt(RSumOp(F, 1, k), k)
  IN  Build(Stp, <<One>>)
RECURSIVE JIPow(_, _)
JIPow(a, n) == IF n = 0 THEN JConst(One) ELSE JMul(a, JIPow(a, n - 1))
=============================================================================
