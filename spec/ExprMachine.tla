----------------------------- MODULE ExprMachine -----------------------------
(***************************************************************************)
(* Expression programs as behaviours.  The machine has two registers       *)
(* holding exact jets in the local variable u = c*(x - a):                 *)
(*    A  the expression under construction,   B  a saved sub-expression   *)
(* Actions: NewX (A := u), Dup (B := A), unary elementary functions on A   *)
(* (each guarded by the value A_0 at which its Taylor coefficients are     *)
(* rational), AddC/MulC with small constants, integer and rational powers, *)
(* and the binary operations A := A (+,-,*,/) B.  A behaviour IS an        *)
(* expression program; its state IS the exact jet of that expression, so   *)
(* n! * A_n * c^n is the exact n-th derivative at x = a.                   *)
(* `entire` is TRUE while the expression is built only from entire         *)
(* functions (no finite singularity), which decides whether the default    *)
(* step generator (steps up to 2*log(e+|x|)) may be used in the replay.    *)
(***************************************************************************)
EXTENDS Jets, Sequences, Json
CONSTANTS MaxOps, Unary, Cs, EmitOn
VARIABLES A, B, hasB, prog, nops, entire, c

vars == <<A, B, hasB, prog, nops, entire, c>>
CsOne == {One}
CsStd == {One, R(3), Q(1, 4)}

AtZero == {"exp", "expm1", "sin", "cos", "tan", "sinh", "cosh", "tanh", "arctan", "arcsin", "arcsinh", "arctanh", "log1p"}
AtOne  == {"log", "sqrt", "pow32", "powm12"}
EntireOps == {"exp", "expm1", "sin", "cos", "sinh", "cosh"}

Apply(op, a) ==
  CASE op = "exp" -> JExp(a) [] op = "expm1" -> JExpm1(a) [] op = "sin" -> JSin(a) [] op = "cos" -> JCos(a)
    [] op = "tan" -> JTan(a) [] op = "sinh" -> JSinh(a) [] op = "cosh" -> JCosh(a) [] op = "tanh" -> JTanh(a)
    [] op = "arctan" -> JArctan(a) [] op = "arcsin" -> JArcsin(a) [] op = "arcsinh" -> JArcsinh(a)
    [] op = "arctanh" -> JArctanh(a) [] op = "log1p" -> JLog1p(a)
    [] op = "log" -> JLog(a) [] op = "sqrt" -> JSqrt(a)
    [] op = "pow32" -> JPow(a, Q(3, 2)) [] op = "powm12" -> JPow(a, Q(-1, 2))

Init == /\ c \in Cs /\ A = JVar(c) /\ B = JZero /\ hasB = FALSE
        /\ prog = <<"x">> /\ nops = 0 /\ entire = TRUE

Push(op) == prog' = Append(prog, op) /\ c' = c

UnaryOp(op) ==
  /\ nops < MaxOps /\ op \in Unary
  /\ (op \in AtZero => A[1] = Zero) /\ (op \in AtOne => A[1] = One)
  /\ A' = Apply(op, A) /\ JValid(A')
  /\ entire' = (entire /\ op \in EntireOps)
  /\ nops' = nops + 1 /\ Push(op) /\ UNCHANGED <<B, hasB>>

AddC(q, name) ==
  /\ nops < MaxOps /\ A' = JAddC(A, q) /\ nops' = nops + 1 /\ Push(name) /\ UNCHANGED <<B, hasB, entire>>
MulC(q, name) ==
  /\ nops < MaxOps /\ A' = JScale(q, A) /\ JValid(A') /\ nops' = nops + 1 /\ Push(name) /\ UNCHANGED <<B, hasB, entire>>
IntPow(k, name) ==
  /\ nops < MaxOps /\ A' = JIPow(A, k) /\ JValid(A') /\ nops' = nops + 1 /\ Push(name) /\ UNCHANGED <<B, hasB, entire>>
Recip ==
  /\ nops < MaxOps /\ A[1] # Zero /\ A' = JDiv(JConst(One), A) /\ JValid(A')
  /\ entire' = FALSE /\ nops' = nops + 1 /\ Push("recip") /\ UNCHANGED <<B, hasB>>

Dup  == /\ ~hasB /\ nops >= 1 /\ nops < MaxOps /\ B' = A /\ hasB' = TRUE /\ A' = JVar(c)
        /\ Push("dup") /\ UNCHANGED <<nops, entire>>
Bin(op) ==
  /\ hasB /\ nops < MaxOps
  /\ A' = CASE op = "add" -> JAdd(A, B) [] op = "sub" -> JSub(A, B) [] op = "mul" -> JMul(A, B) [] op = "div" -> JDiv(A, B)
  /\ (op = "div" => B[1] # Zero) /\ JValid(A')
  /\ entire' = (entire /\ op # "div")
  /\ hasB' = FALSE /\ B' = JZero /\ nops' = nops + 1 /\ Push(op)

Next ==
  \/ \E op \in Unary : UnaryOp(op)
  \/ AddC(One, "add1") \/ AddC(Q(-1, 2), "sub_half")
  \/ MulC(R(2), "mul2") \/ MulC(Q(-1, 2), "mul_mhalf")
  \/ IntPow(2, "ipow2") \/ IntPow(3, "ipow3")
  \/ Recip \/ Dup
  \/ \E op \in {"add", "sub", "mul", "div"} : Bin(op)

Spec == Init /\ [][Next]_vars

\* ---- properties of the machine itself
JetDefined == JValid(A)
\* programs that end in a binary op or have no pending B are complete expressions
Complete == ~hasB /\ nops >= 1
Nonpoly == \E k \in 1..Len(prog) : prog[k] \in (AtZero \cup AtOne \cup {"recip", "div"})

Emit == (EmitOn /\ Complete) => PrintT(<<"@@", ToJson([prog |-> prog, c |-> c, jet |-> A, entire |-> entire, nops |-> nops])>>)
=============================================================================
