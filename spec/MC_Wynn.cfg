CONSTANTS
  KMaxTr = 3
  EmitOn = TRUE
INIT Init
NEXT Next
CHECK_DEADLOCK FALSE
INVARIANT InvMatchesTable
INVARIANT InvRecoversLimit
INVARIANT InvDea3Geometric
INVARIANT InvScaleCovariant
CONSTRAINT Bounded
CONSTRAINT Emit
