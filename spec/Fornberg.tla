------------------------------ MODULE Fornberg ------------------------------
(***************************************************************************)
(* Finite-difference weights on arbitrary nodes.                           *)
(*  - LagrangeWeights: the DEFINITION: row k, column j = k-th derivative   *)
(*    at x0 of the j-th Lagrange basis polynomial of the nodes.            *)
(*  - the Fornberg (1998) recursion exactly as numdifftools                *)
(*    _fd_weights_all runs it, as a loop machine (outer i, inner v) whose  *)
(*    state is the weight table and the running products c1..c5.           *)
(*  - fd_derivative's window selection.                                    *)
(* All arithmetic is exact (Rational.tla, overflow -> NaR).                *)
(***************************************************************************)
EXTENDS Rational, TLC

\* ---- polynomials as coefficient sequences (constant term first)
\* TLCEval forces TLC to evaluate the (otherwise lazy) function constructors once
PMulLin(p, a) ==   \* p(s) * (s - a)
  TLCEval([i \in 1..(Len(p) + 1) |->
     RSub(IF i > 1 THEN p[i - 1] ELSE Zero, IF i <= Len(p) THEN RMul(a, p[i]) ELSE Zero)])
PScale(p, c) == TLCEval([i \in 1..Len(p) |-> RMul(c, p[i])])

\* basis polynomial of node j in the shifted variable s = t - x0 (nodes y_i = x_i - x0)
RECURSIVE BasisAcc(_, _, _, _)
BasisAcc(y, j, i, p) ==
  IF i > Len(y) THEN p
  ELSE IF i = j THEN BasisAcc(y, j, i + 1, p)
  ELSE BasisAcc(y, j, i + 1, PScale(PMulLin(p, y[i]), RInv(RSub(y[j], y[i]))))
Basis(y, j) == BasisAcc(y, j, 1, <<One>>)

\* W[k+1][j] = k! * coef_k(basis_j)
LagrangeWeights(x, x0, n) ==
  LET y == TLCEval([i \in 1..Len(x) |-> RSub(x[i], x0)])
      b == TLCEval([j \in 1..Len(x) |-> Basis(y, j)])
  IN  TLCEval([k \in 1..(n + 1) |-> [j \in 1..Len(x) |-> RMulInt(b[j][k], Fact(k - 1))]])

AllValid(W) == \A k \in 1..Len(W) : \A j \in 1..Len(W[k]) : Valid(W[k][j])

\* ---- the recursion, one inner iteration per step.
\* w is indexed w[node][order+1] (the code's weights[v, j]); Get handles the j-1 = -1 wrap-around
\* (multiplied by j = 0 in the code).
WGet(w, v, j) == IF j < 0 THEN Zero ELSE w[v + 1][j + 1]
IMin(a, b) == IF a < b THEN a ELSE b

InnerUpdate(w, x, v, i, n, c3, c4) ==      \* weights[v, j] = (c4*weights[v, j] - j*weights[v, j-1]) / c3, j = 0..min(i, n)
  [w EXCEPT ![v + 1] = [jj \in 1..(n + 1) |->
       IF jj - 1 <= IMin(i, n)
       THEN RDiv(RSub(RMul(c4, w[v + 1][jj]), RMulInt(WGet(w, v, jj - 2), jj - 1)), c3)
       ELSE w[v + 1][jj]]]
RowGet(row, j) == IF j < 0 THEN Zero ELSE row[j + 1]
OuterUpdate(w, oldrow, i, n, c1, c2, c5) ==  \* weights[i, j] = c1*(j*old[i-1, j-1] - c5*old[i-1, j]) / c2
  [w EXCEPT ![i + 1] = [jj \in 1..(n + 1) |->
       IF jj - 1 <= IMin(i, n)
       THEN RDiv(RMul(c1, RSub(RMulInt(RowGet(oldrow, jj - 2), jj - 1), RMul(c5, oldrow[jj]))), c2)
       ELSE w[i + 1][jj]]]

\* ---- fd_derivative windows: for output index i (0-based) of a grid of length N
\* returns <<lo, hi, boundary>> : nodes x[lo..hi-1] (0-based, half open) are used with x0 = x[i]
MM(n, m) == (n \div 2) + m
Window(N, n, m, i) ==
  LET mm == MM(n, m) size == 2 * mm + 2 IN
  IF i < mm THEN <<0, size>>
  ELSE IF i >= N - mm THEN <<N - size, N>>
  ELSE <<i - mm, i + mm + 1>>
=============================================================================
