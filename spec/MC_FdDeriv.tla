----------------------------- MODULE MC_FdDeriv -----------------------------
(* fd_derivative (C16): the window of nodes used for every output point (both boundary loops    *)
(* and the interior sliding window), its invariants, and the exact n-th derivative of the test  *)
(* polynomials on TLC-built strictly monotone grids.  The derivative polynomial is emitted too, *)
(* so that the replay can evaluate the exact answer on arbitrary floating-point grids.          *)
EXTENDS Fornberg, Json
CONSTANTS EmitOn
VARIABLES n, m, N, pat, dir, coefs
vars == <<n, m, N, pat, dir, coefs>>

mm == MM(n, m)
\* grid patterns: spacing sequences (cycled), start point; dir = -1 mirrors the grid (decreasing)
Spacings(p) == CASE p = 1 -> <<One>> [] p = 2 -> <<Q(1, 2)>> [] p = 3 -> <<One, Q(1, 2), R(2), Q(1, 2)>>
                 [] p = 4 -> <<Q(1, 4), One, Q(1, 4), Q(3, 2), Q(1, 2)>>
Start(p) == CASE p = 1 -> R(-4) [] p = 2 -> R(-2) [] p = 3 -> R(-5) [] p = 4 -> Q(-7, 2)
RECURSIVE GridAcc(_, _, _)
GridAcc(p, g, k) == IF k > N THEN g
                    ELSE GridAcc(p, Append(g, RAdd(g[Len(g)], Spacings(p)[((k - 2) % Len(Spacings(p))) + 1])), k + 1)
Grid == LET g0 == GridAcc(pat, <<Start(pat)>>, 2) IN TLCEval([i \in 1..N |-> IF dir = 1 THEN g0[i] ELSE RNeg(g0[i])])

\* polynomials: coefficient sequence (constant first), degree <= 2*mm
Polys(d) == {[k \in 1..(d + 1) |-> IF k = d + 1 THEN One ELSE Zero],
             [k \in 1..(d + 1) |-> IF k = d + 1 THEN Q(1, 2) ELSE IF k = 1 THEN R(3) ELSE IF k = 2 THEN R(-1) ELSE Zero],
             [k \in 1..(d + 1) |-> IF k % 2 = 1 THEN One ELSE R(-2)]}

Init == /\ n \in 1..6 /\ m \in 1..4
        /\ N \in {2 * MM(n, m) + 2, 2 * MM(n, m) + 3, 2 * MM(n, m) + 5}
        /\ N <= 14
        /\ pat \in 1..4 /\ dir \in {1, -1}
        /\ \E d \in {0, n, 2 * MM(n, m) - 1, 2 * MM(n, m)} : d >= 0 /\ coefs \in Polys(d)
Next == UNCHANGED vars

\* k-th derivative of a coefficient sequence
RECURSIVE Falling(_, _)
Falling(a, k) == IF k = 0 THEN 1 ELSE a * Falling(a - 1, k - 1)
PolyDeriv(c, k) == IF Len(c) <= k THEN <<Zero>>
                   ELSE TLCEval([j \in 1..(Len(c) - k) |-> RMulInt(c[j + k], Falling(j + k - 1, k))])
Eval(c, t) == LET RECURSIVE h(_)
                  h(j) == IF j > Len(c) THEN Zero ELSE RAdd(c[j], RMul(t, h(j + 1)))
              IN  h(1)

Windows == [i \in 1..N |-> Window(N, n, m, i - 1)]

InvWindows ==
  \A i \in 1..N : LET wd == Windows[i] IN
     /\ 0 <= wd[1] /\ wd[1] < wd[2] /\ wd[2] <= N            \* inside the array
     /\ wd[1] <= i - 1 /\ i - 1 < wd[2]                       \* contains the point itself
     /\ wd[2] - wd[1] > n                                     \* enough nodes for an n-th derivative
     /\ wd[2] - wd[1] >= 2 * mm + 1                           \* exact for degree <= 2*mm
InvLongEnough == N >= 2 * mm + 2 /\ N > n

Rec == LET G == Grid  D == PolyDeriv(coefs, n) IN
       [n |-> n, m |-> m, N |-> N, pat |-> pat, dir |-> dir, coefs |-> coefs, dcoefs |-> D,
        grid |-> G, fx |-> [i \in 1..N |-> Eval(coefs, G[i])], want |-> [i \in 1..N |-> Eval(D, G[i])],
        windows |-> Windows]
Emit == EmitOn => PrintT(<<"@@", ToJson(Rec)>>)
=============================================================================
