----------------------------- MODULE MC_StepGen -----------------------------
(* Enumerates generator configurations in three families and emits the model's sequence.      *)
(*  count : everything that decides HOW MANY steps (class x method x n x order x num_steps x   *)
(*          num_extrap x check_num_steps)                                                      *)
(*  value : everything that decides WHICH steps (base, ratio, nominal, offset, exactness,      *)
(*          scale, and (method, n, order) through the default scale / default ratio)           *)
(*  deriv : the generator a Derivative object builds for step=None / scalar step               *)
EXTENDS StepGen, Json
RL == INSTANCE Rules
CONSTANTS NMax, OMax, ValN, ValO, EmitOn
VARIABLES fam, opts, m, n, o, theta
vars == <<fam, opts, m, n, o, theta>>
DefaultTheta == <<1, 8>>          \* dtheta = pi/8

Methods == {"central", "forward", "backward", "complex", "multicomplex"}
Mk(c, b, r, ns, nm, off, ex, xa, ch, sc) ==
  [cls |-> c, base |-> b, ratio |-> r, numsteps |-> ns, nom |-> nm, offset |-> off,
   extrap |-> ex, exact |-> xa, check |-> ch, scale |-> sc]

CountInit ==
  /\ fam = "count" /\ m \in Methods /\ n \in 1..NMax /\ o \in 1..OMax
  /\ \E c \in {"Min", "Max", "C"}, ns \in {NoneN, 1, 3, 12}, ex \in {0, 4}, ch \in BOOLEAN :
        opts = Mk(c, Q(1, 4), IF c = "C" THEN R(4) ELSE R(2), ns, One, Zero, ex, TRUE, ch, NoneQ)

ValueInit ==
  /\ fam = "value" /\ m \in Methods /\ n \in ValN /\ o \in ValO
  /\ \E c \in {"Min", "Max", "C"}, b \in {NoneQ, Q(1, 4), Zero}, r \in {NoneQ, R(3), Q(3, 2)},
        nm \in {NoneQ, Q(1, 2)}, off \in {Zero, R(2), R(-1), Q(1, 2)}, xa \in BOOLEAN, sc \in {NoneQ, R(3)} :
        /\ (c = "C" => r # NoneQ)
        /\ opts = Mk(c, b, r, 4, nm, off, 0, xa, FALSE, sc)

CDefaultInit ==     \* CStepGenerator default count 2*round(16/ln r)+1
  /\ fam = "cdefault" /\ m = "forward" /\ n = 1 /\ o = 2
  /\ \E r \in {R(2), R(3), R(4), R(8), R(16), Q(3, 2), R(10)} :
        opts = Mk("C", NoneQ, r, NoneN, NoneQ, Zero, 0, TRUE, TRUE, Q(6, 5))

SpiralInit ==      \* CStepGenerator(path='spiral', dtheta = pi*t1/t2) ; theta carried in opts.nom slot is not possible: own fields
  /\ fam = "spiral" /\ m = "forward" /\ n = 1 /\ o = 2
  /\ \E r \in {R(2), R(4), Q(3, 2)}, ns \in {NoneN, 5}, off \in {Zero, R(1)}, b \in {NoneQ, Q(1, 4)} :
        opts = Mk("C", b, r, ns, NoneQ, off, 0, TRUE, TRUE, Q(6, 5))
  /\ theta \in {DefaultTheta, <<-1, 8>>, <<1, 4>>, <<-1, 3>>}      \* counter-clockwise (default), clockwise, other angles

DerivInit ==
  /\ fam = "deriv" /\ m \in Methods /\ n \in 1..NMax /\ o \in 1..OMax
  /\ \E st \in {NoneQ, Q(1, 8)} : opts = DerivOpts(m, st)

Init == ((CountInit \/ ValueInit \/ CDefaultInit \/ DerivInit) /\ theta = DefaultTheta) \/ SpiralInit
Next == UNCHANGED vars

\* documented: decreasing magnitude
InvDecreasing == Decreasing(Exponents(opts, m, n, o))
InvCountPositive == Count(opts, m, n, o) >= 1
\* defaults never give fewer steps than the minimum the method needs
InvDefaultEnough == (opts.cls # "C" /\ (opts.numsteps = NoneN \/ opts.check)) => Count(opts, m, n, o) >= MinNumSteps(m, n, o)
\* no valid Derivative configuration fails for lack of steps: the generator a Derivative object
\* builds by default (or from a scalar step) yields more steps than the rule has weights minus one
InvRuleFits ==
  (fam = "deriv" /\ m \in RL!RuleMethods) =>
      LET mo == RL!MethodOrder(m, n, o) IN Count(opts, m, n, mo) > RL!NumTerms(m, n, o) - 1
InvScalePositive == RSign(DefaultScale(m, n, o)) > 0

Rec == [fam |-> fam, opts |-> opts, m |-> m, n |-> n, o |-> o,
        count |-> IF AllDropped(opts) THEN 0 ELSE Count(opts, m, n, o),
        exps |-> Exponents(opts, m, n, o),
        base |-> BaseTerm(opts, m, n, o), nom |-> NomTerm(opts),
        ratio |-> Ratio(opts, n), exact |-> opts.exact,
        minsteps |-> MinNumSteps(m, n, o),
        \* the literal reading of the property: the rule LogRule builds for the SAME (method, n, order) - it raises an order
        \* below the method's minimal order - has this many weights, each consuming one step
        ruleterms |-> IF m \in RL!RuleMethods THEN RL!NumTerms(m, n, o) ELSE 1,
        rstep |-> IF m \in RL!RuleMethods THEN RL!RichardsonStep(m, n, o) ELSE 1,
        angles |-> IF fam = "spiral" THEN [j \in 1..Len(Exponents(opts, m, n, o)) |-> SpiralAngle(theta, Exponents(opts, m, n, o)[j])] ELSE << >>,
        theta |-> theta]
Emit == EmitOn => PrintT(<<"@@", ToJson(Rec)>>)
=============================================================================
