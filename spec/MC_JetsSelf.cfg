CONSTANT K = 8
INIT Init
NEXT Next
CHECK_DEADLOCK FALSE
