------------------------------- MODULE StepGen -------------------------------
(***************************************************************************)
(* Closed-form model of the step generators (the "documented sequences"):  *)
(*   MinStepGenerator :  base * nom(x) * ratio^( i + offset), i = N-1 .. 0 *)
(*   MaxStepGenerator :  base * nom(x) * ratio^(-i + offset), i = 0 .. N-1 *)
(*   CStepGenerator   :  as Min, ratio possibly rotated by exp(i*dtheta)   *)
(* A step is the symbolic term                                             *)
(*     <<baseKind, baseVal, nomKind, nomVal, ratio, exponent, exact>>      *)
(* with  baseKind = "user" (baseVal rational) | "eps" (baseVal = scale,    *)
(* meaning EPS^(1/scale)), nomKind = "user" | "log" (max(log(e-1+|x|),1)), *)
(* ratio and exponent rational.  TLC decides structure, counts, scales and *)
(* exponents; the harness only interprets the term as a float.             *)
(***************************************************************************)
EXTENDS Rational, TLC

SMax(a, b) == IF a > b THEN a ELSE b
NoneQ == <<0, 0>>    \* "option not given" for rational-valued options (not a rational: den = 0)
NoneN == 0          \* "option not given" for num_steps

\* ---- default_scale(method, n, order), exact rational transcription of the documented table
HighOrder(n, o) == n > 1 \/ o >= 4
ComplexC(n, o) ==
  LET n4 == n \div 4  r == n % 4 IN
  IF ~HighOrder(n, o) THEN Zero
  ELSE CASE r = 0 -> RMul(R(n4), RAdd(R(10), IF n > 10 THEN Q(3, 2) ELSE Zero))
         [] r = 1 -> RAdd(Q(365, 100), RMul(R(n4), RAdd(R(5), RPow(Q(3, 2), n4))))
         [] r = 2 -> RAdd(Q(365, 100), RMul(R(n4), RAdd(R(5), RPow(Q(17, 10), n4))))
         [] r = 3 -> RAdd(Q(730, 100), RMul(R(n4), RAdd(R(5), RPow(Q(21, 10), n4))))

DefaultScale(m, n, o) ==
  LET order2 == SMax(o \div 2 - 1, 0)
      first  == CASE m = "multicomplex" -> Q(106, 100)
                  [] m = "complex" -> RAdd(Q(106, 100), ComplexC(n, o))
                  [] OTHER -> Q(5, 2)
      second == IF m \in {"multicomplex", "complex"} THEN Zero ELSE RMul(R(n - 1), Q(13, 10))
      third  == CASE m = "central" -> R(3 * order2)
                  [] m \in {"forward", "backward"} -> R(2 * order2)
                  [] OTHER -> Zero
  IN  RAdd(RAdd(first, second), third)

\* ---- counts
Divisor(m, n, o) ==
  CASE m \in {"central", "central2", "multicomplex"} -> 2
    [] m = "complex" -> IF n > 1 \/ o >= 4 THEN 4 ELSE 2
    [] OTHER -> 1
MinNumSteps(m, n, o) == SMax((n + o - 1) \div Divisor(m, n, o), 1)

\* round(16/ln r) for the ratios the model uses (TLC has no logarithm; the harness re-checks
\* each table entry against the floating-point formula before using it)
Round16OverLn(r) ==
  CASE r = R(2) -> 23 [] r = R(3) -> 15 [] r = R(4) -> 12 [] r = R(8) -> 8 [] r = R(16) -> 6
    [] r = Q(3, 2) -> 39 [] r = R(10) -> 7

\* opts: [cls, base, ratio, numsteps, nom, offset, extrap, exact, check, scale]  (NoneQ / NoneN = not given)
Count(opts, m, n, o) ==
  IF opts.cls = "C"
  THEN IF opts.numsteps = NoneN THEN 2 * Round16OverLn(opts.ratio) + 1 ELSE opts.numsteps
  ELSE IF opts.numsteps # NoneN
       THEN IF opts.check THEN SMax(opts.numsteps, MinNumSteps(m, n, o)) ELSE opts.numsteps
       ELSE MinNumSteps(m, n, o) + opts.extrap

Ratio(opts, n) == IF opts.ratio = NoneQ THEN (IF n = 1 THEN R(2) ELSE Q(8, 5)) ELSE opts.ratio

BaseTerm(opts, m, n, o) ==
  IF opts.base # NoneQ THEN <<"user", opts.base>>
  ELSE <<"eps", IF opts.scale = NoneQ THEN DefaultScale(m, n, o) ELSE opts.scale>>
NomTerm(opts) == IF opts.nom = NoneQ THEN <<"log", Zero>> ELSE <<"user", opts.nom>>

\* exponents in generation order (decreasing magnitude since ratio > 1)
Exponents(opts, m, n, o) ==
  LET N == Count(opts, m, n, o)
  IN  IF opts.cls = "Max"
      THEN [j \in 1..N |-> RAdd(R(-(j - 1)), opts.offset)]
      ELSE [j \in 1..N |-> RAdd(R(N - j), opts.offset)]

\* zero steps are dropped: only a zero base makes a step zero in the model's domain
AllDropped(opts) == opts.base # NoneQ /\ opts.base = Zero

Decreasing(e) == \A j \in 1..(Len(e) - 1) : RLt(e[j + 1], e[j])

\* ---- CStepGenerator paths: radial (dtheta ignored) or spiral: the ratio is rotated by exp(i*dtheta),
\* dtheta = pi * theta[1] / theta[2]; step number j (generation order) is
\*    base * nom * (|ratio| * exp(i*dtheta))^(exponent_j)
\* The model gives modulus and angle separately: angle_j = dtheta * exponent_j.
SpiralAngle(theta, e) == RMul(Q(theta[1], theta[2]), e)        \* in units of pi

\* ---- what Derivative builds when the user passes step=None or a scalar
DerivOpts(m, step) ==
  IF step = NoneQ /\ m \notin {"complex", "multicomplex"}
  THEN [cls |-> "Max", base |-> R(2), ratio |-> NoneQ, numsteps |-> 15, nom |-> NoneQ, offset |-> Zero,
        extrap |-> 9, exact |-> FALSE, check |-> TRUE, scale |-> R(500)]
  ELSE [cls |-> "Min", base |-> step, ratio |-> NoneQ, numsteps |-> NoneN,
        nom |-> IF step = NoneQ THEN NoneQ ELSE One, offset |-> Zero,
        extrap |-> 0, exact |-> TRUE, check |-> TRUE, scale |-> NoneQ]
=============================================================================
