-------------------------------- MODULE Wynn --------------------------------
(***************************************************************************)
(* Wynn's epsilon algorithm / Shanks transformation over exact rationals.  *)
(*  - EpsTableEntry: the table by its defining rhombus rule                *)
(*      eps_{-1}^{(n)} = 0, eps_0^{(n)} = S_n,                              *)
(*      eps_{k+1}^{(n)} = eps_{k-1}^{(n+1)} + 1/(eps_k^{(n+1)} - eps_k^{(n)})*)
(*  - EpsAlgFeed: the in-place anti-diagonal update that                    *)
(*      numdifftools.extrapolation.EpsAlg really performs                   *)
(*  - Dea3: the three-term QUADPACK qelg step (numdifftools dea3) branch    *)
(*      by branch.  On the exact domain used by the model (small rationals) *)
(*      a difference is below max|e|*EPS iff it is zero; that domain        *)
(*      restriction is stated as DomainOK.                                  *)
(***************************************************************************)
EXTENDS Rational, TLC

\* ---- the table by definition; s is a sequence S_0..S_m stored 1-based
\* Defined(s, k, n): no vanishing difference on the way to eps_k^{(n)}
RECURSIVE EpsDef(_, _, _)
EpsDef(s, k, n) ==          \* returns <<ok, value>>
  IF k = -1 THEN <<TRUE, Zero>>
  ELSE IF k = 0 THEN <<TRUE, s[n + 1]>>
  ELSE LET a == EpsDef(s, k - 2, n + 1)
           b == EpsDef(s, k - 1, n + 1)
           c == EpsDef(s, k - 1, n)
       v == RAdd(a[2], RInv(RSub(b[2], c[2])))
       IN  IF ~(a[1] /\ b[1] /\ c[1]) \/ b[2] = c[2] \/ IsNaR(v) THEN <<FALSE, Zero>>
           ELSE <<TRUE, v>>

\* entry of highest even order determined by S_0..S_m :  eps_{2 floor(m/2)}^{(m - 2 floor(m/2))}
Estlim(s) == LET m == Len(s) - 1 IN EpsDef(s, 2 * (m \div 2), m - 2 * (m \div 2))

\* ---- code-shaped: EpsAlg.__call__ .  tab is the list `epstab` (1-based here), returns new list
\* for i = n .. 1:  aux1 = aux2; aux2 = tab[i-1]; delta = tab[i] - aux2; tab[i-1] = aux1 + 1/delta
EpsAlgFeed(tab, sn) ==
  LET n  == Len(tab)
      t0 == Append(tab, sn)
      RECURSIVE loop(_, _, _, _)
      loop(i, t, aux2, ok) ==
        IF i = 0 THEN <<ok, t>>
        ELSE LET old  == t[i]                    \* python tab[i-1]
                 delta == RSub(t[i + 1], old)
             IN  IF delta = Zero \/ IsNaR(delta) \/ IsNaR(RAdd(aux2, RInv(delta))) THEN <<FALSE, t>>
                 ELSE loop(i - 1, [t EXCEPT ![i] = RAdd(aux2, RInv(delta))], old, ok)
  IN  IF n = 0 THEN <<TRUE, t0>> ELSE loop(n, t0, Zero, TRUE)
EpsAlgResult(tab) == tab[((Len(tab) - 1) % 2) + 1]      \* epstab[n % 2] with n = len-1

\* ---- dea3 (vectorised qelg for three terms), exact
\* result record: [conv, result, err (rational part of abserr), epsc (coefficient of EPS in abserr)]
Dea3(e0, e1, e2) ==
  LET d2 == RSub(e2, e1)  d1 == RSub(e1, e0)
      err2 == RAbs(d2)    err1 == RAbs(d1)
      tol2 == RMax(RAbs(e2), RAbs(e1))          \* times EPS
      zero1 == d1 = Zero   zero2 == d2 = Zero
      sss == IF zero1 \/ zero2 THEN Zero ELSE RSub(RInv(d2), RInv(d1))
      smalle2 == ~(zero1 \/ zero2) /\ RAbsLeqSmall(RMul(sss, e1), 1, 10000)
      conv == zero1 \/ zero2 \/ smalle2
      res  == IF conv THEN e2 ELSE RAdd(e1, RInv(sss))
      allv == Valid(sss) /\ Valid(res) /\ Valid(RMul(sss, e1)) /\ Valid(RSub(res, e2))
  IN  [valid |-> allv, conv |-> conv, result |-> res,
       err  |-> RAdd(RAdd(err1, err2), IF conv THEN Zero ELSE RAbs(RSub(res, e2))),
       epsc |-> IF conv THEN RMulInt(tol2, 10) ELSE Zero]

\* the exact domain on which "difference below max|e|*EPS" coincides with "difference is zero"
DomainOK(e0, e1, e2) ==
  \A q \in {e0, e1, e2, RSub(e2, e1), RSub(e1, e0)} : q[2] <= 4096 /\ Abs(q[1]) <= 1048576
=============================================================================
