----------------------------- MODULE MC_Bicomplex -----------------------------
(* family "ring": every pair of operands from a small box: the theorems above + emission of the *)
(*   exact results of + - * / and integer powers;                                               *)
(* family "dir" : perturbation directions e = i a + j b + ij c with their exact powers e^k,     *)
(*   from which the harness assembles  F(x + delta e) = sum_k jet_k delta^k e^k  with the jets  *)
(*   of ExprMachine programs (holomorphic extension by Taylor series).                          *)
EXTENDS Bicomplex, Json
CONSTANTS KP, EmitOn
VARIABLES fam, a, b, fn, x0, sh
vars == <<fam, a, b, fn, x0, sh>>
Vals == {-1, 0, 2}
Box == {BInt(p, q, r, s) : p \in Vals, q \in Vals, r \in {0, 1, -2}, s \in {0, 1}}
\* operands near the real axis (the property's domain for division and powers)
NearBox == {<<R(p), q, r, t>> : p \in {-1, 2, 3}, q \in {Zero, Q(1, 16)}, r \in {Zero, Q(1, 16)}, t \in {Zero, Q(-1, 8)}}
Dirs == {BInt(0, p, q, r) : p \in -2..2, q \in -2..2, r \in -2..2}
\* family "fun": every elementary function of the class at rational base points of its real domain,
\* perturbed by delta * e, delta = 2^-sh; expected value = FromIdem(f(ToIdem(x0 + delta e))) with the
\* ordinary complex function f in both idempotent components (the definition in the property)
DomainPts(kind) ==
  CASE kind = "all" -> {R(-2), Q(-1, 2), Zero, Q(3, 4), R(2)} [] kind = "pos" -> {Q(1, 4), One, R(3)}
    [] kind = "gtm1" -> {Q(-1, 2), Zero, R(2)} [] kind = "unit" -> {Q(-3, 4), Zero, Q(1, 2)}
    [] kind = "gt1" -> {Q(5, 4), R(3)} [] kind = "nonzero" -> {R(-2), Q(-1, 2), Q(3, 4), R(2)}
Funs == {<<"exp", "all">>, <<"sin", "all">>, <<"cos", "all">>, <<"sinh", "all">>, <<"cosh", "all">>, <<"tanh", "all">>,
         <<"arctan", "all">>, <<"arcsinh", "all">>, <<"expm1", "all">>, <<"exp2", "all">>, <<"sech", "all">>,
         <<"log", "pos">>, <<"sqrt", "pos">>, <<"log2", "pos">>, <<"log10", "pos">>, <<"pow1.5", "pos">>, <<"pow-0.5", "pos">>, <<"powz", "pos">>,
         <<"log1p", "gtm1">>, <<"arcsin", "unit">>, <<"arccos", "unit">>, <<"arctanh", "unit">>, <<"arccosh", "gt1">>,
         <<"tan", "nonzero">>, <<"sec", "nonzero">>, <<"cot", "nonzero">>, <<"csc", "nonzero">>, <<"coth", "nonzero">>, <<"csch", "nonzero">>,
         <<"ipow2", "nonzero">>, <<"ipow3", "nonzero">>, <<"ipow-1", "nonzero">>, <<"ipow-3", "nonzero">>, <<"recip", "nonzero">>, <<"rsub", "all">>}
FunDirs == {BInt(0, 1, 0, 0), BInt(0, 0, 1, 0), BInt(0, 0, 0, 1), BInt(0, 1, 1, 0), BInt(0, 1, 1, 1), BInt(0, -1, 2, 1), BInt(0, 2, -1, -2), BInt(0, -2, 0, 0)}
Init == \/ fam = "ring" /\ a \in Box /\ b \in Box /\ fn = "" /\ x0 = Zero /\ sh = 0
        \/ fam = "near" /\ a \in NearBox /\ b \in NearBox /\ fn = "" /\ x0 = Zero /\ sh = 0
        \/ fam = "dir" /\ a \in Dirs /\ b = BZero /\ fn = "" /\ x0 = Zero /\ sh = 0
        \/ /\ fam = "fun" /\ b = BZero /\ a \in FunDirs /\ sh \in {4, 10, 20, 26}
           /\ \E f \in Funs : fn = f[1] /\ x0 \in DomainPts(f[2])
Next == UNCHANGED vars
InvRing == fam \in {"ring", "near"} => /\ ThmIdemMul(a, b) /\ ThmIdemRoundTrip(a) /\ ThmInv(a) /\ ThmCommutes(a, b)
                          /\ BMul(a, BAdd(a, b)) = BAdd(BMul(a, a), BMul(a, b))
                          /\ ThmPowInt(a) /\ ThmPowNeg(a)
Rec == IF fam \in {"ring", "near"}
       THEN [fam |-> fam, a |-> a, b |-> b, sum |-> BAdd(a, b), dif |-> BSub(a, b), prod |-> BMul(a, b),
             inv |-> Invertible(b), quot |-> IF Invertible(b) THEN BDiv(a, b) ELSE BZero,
             p2 |-> BPow(a, 2), p3 |-> BPow(a, 3), p5 |-> BPowInt(a, 5), pm2 |-> IF Invertible(a) THEN BPowInt(a, -2) ELSE BZero, pm1 |-> IF Invertible(a) THEN BInv(a) ELSE BZero, ainv |-> Invertible(a)]
       ELSE IF fam = "dir" THEN [fam |-> fam, e |-> a, pows |-> [k \in 1..(KP + 1) |-> BPow(a, k - 1)]]
       ELSE [fam |-> fam, fn |-> fn, x0 |-> x0, e |-> a, sh |-> sh]
Emit == EmitOn => PrintT(<<"@@", ToJson(Rec)>>)
=============================================================================
