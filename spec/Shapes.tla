-------------------------------- MODULE Shapes --------------------------------
(***************************************************************************)
(* C08: array inputs are handled elementwise.  A case is an input array    *)
(* shape (0..3 axes, at most 40 elements), a memory layout of the input,   *)
(* a target position (multi-index), a way of replacing the OTHER elements  *)
(* and a configuration (method, n, order).  The requirement, in the        *)
(* vocabulary of spec/Pipeline.tla: the result has the input's shape, and  *)
(* entry idx of the result (and of every array of the full_output record)  *)
(* is a function of x[idx] alone - column c of the estimate table is built *)
(* from column c only, where c is the C-order flat position of idx         *)
(* whatever the memory layout of x.                                        *)
(***************************************************************************)
EXTENDS Integers, Sequences, TLC, Json
CONSTANTS EmitOn
VARIABLES shape, pos, layout, others, m, n, o
vars == <<shape, pos, layout, others, m, n, o>>

Shapes == {<<>>, <<1>>, <<3>>, <<7>>, <<40>>, <<2, 3>>, <<1, 5>>, <<4, 1>>, <<5, 8>>, <<2, 3, 4>>, <<3, 1, 2>>, <<2, 2, 10>>}
RECURSIVE Prod(_)
Prod(s) == IF s = <<>> THEN 1 ELSE Head(s) * Prod(Tail(s))
Size(s) == Prod(s)
\* C-order flat position of a multi-index
RECURSIVE Flat(_, _)
Flat(idx, s) == IF s = <<>> THEN 0 ELSE Flat(SubSeq(idx, 1, Len(idx) - 1), SubSeq(s, 1, Len(s) - 1)) * s[Len(s)] + idx[Len(idx)]
Indices(s) == IF s = <<>> THEN {<<>>}
              ELSE IF Len(s) = 1 THEN {<<i>> : i \in 0..(s[1] - 1)}
              ELSE IF Len(s) = 2 THEN {<<i, j>> : i \in 0..(s[1] - 1), j \in 0..(s[2] - 1)}
              ELSE {<<i, j, k>> : i \in 0..(s[1] - 1), j \in 0..(s[2] - 1), k \in 0..(s[3] - 1)}
Corner(s) == [i \in 1..Len(s) |-> s[i] - 1]
Middle(s) == [i \in 1..Len(s) |-> s[i] \div 2]
Origin(s) == [i \in 1..Len(s) |-> 0]

Init == /\ shape \in Shapes
        /\ pos \in {Origin(shape), Middle(shape), Corner(shape)}
        /\ layout \in {"C", "F", "transposed", "strided", "readonly"}
        /\ others \in {"moved", "scaled", "leave-domain", "huge", "zero", "clustered"}      \* clustered: all elements within 1e-6 relative of the target (|x| > 1), then the others moved away
        /\ m \in {"central", "forward", "backward", "complex", "multicomplex"}
        /\ n \in 0..6 /\ o \in {2, 4, 6}          \* rules of up to 11 terms (reductions over 8 and more terms are where summation orders start to differ)
        /\ (m = "multicomplex" => n <= 2)
        /\ (Len(shape) < 2 => layout = "C")
Next == UNCHANGED vars

InvPosInside == pos \in Indices(shape) /\ Flat(pos, shape) \in 0..(Size(shape) - 1)
InvSmall == Size(shape) <= 40 /\ Len(shape) <= 3

Emit == EmitOn => PrintT(<<"@@", ToJson([shape |-> shape, pos |-> pos, col |-> Flat(pos, shape), size |-> Size(shape),
                                           layout |-> layout, others |-> others, m |-> m, n |-> n, o |-> o])>>)
=============================================================================
