------------------------------- MODULE Omega8 -------------------------------
(***************************************************************************)
(* The field Q(w), w = exp(i*pi/4) = (1+i)/sqrt(2) (the library's _SQRT_J),*)
(* as 4-tuples of rationals over the basis 1, w, w^2 = i, w^3, w^4 = -1.   *)
(* Real and imaginary parts live in Q + Q/sqrt(2) and are returned as      *)
(* pairs <<rational part, coefficient of 1/sqrt2>>.                         *)
(***************************************************************************)
EXTENDS Rational

OZero == <<Zero, Zero, Zero, Zero>>
OOne  == <<One, Zero, Zero, Zero>>
OI    == <<Zero, Zero, One, Zero>>
OW    == <<Zero, One, Zero, Zero>>
ORat(q) == <<q, Zero, Zero, Zero>>
OInt(n) == ORat(R(n))

OAdd(a, b) == <<RAdd(a[1], b[1]), RAdd(a[2], b[2]), RAdd(a[3], b[3]), RAdd(a[4], b[4])>>
ONeg(a)    == <<RNeg(a[1]), RNeg(a[2]), RNeg(a[3]), RNeg(a[4])>>
OSub(a, b) == OAdd(a, ONeg(b))
OScale(q, a) == <<RMul(q, a[1]), RMul(q, a[2]), RMul(q, a[3]), RMul(q, a[4])>>

\* (sum a_i w^i)(sum b_j w^j) with w^4 = -1
OMul(a, b) ==
  LET M(x, y) == RMul(x, y)
      A3(x, y, z) == RAdd(RAdd(x, y), z)
  IN <<RSub(M(a[1], b[1]), A3(M(a[2], b[4]), M(a[3], b[3]), M(a[4], b[2]))),
       RSub(RAdd(M(a[1], b[2]), M(a[2], b[1])), RAdd(M(a[3], b[4]), M(a[4], b[3]))),
       RSub(A3(M(a[1], b[3]), M(a[2], b[2]), M(a[3], b[1])), M(a[4], b[4])),
       RAdd(A3(M(a[1], b[4]), M(a[2], b[3]), M(a[3], b[2])), M(a[4], b[1]))>>

RECURSIVE OPow(_, _)
OPow(a, k) == IF k = 0 THEN OOne ELSE OMul(a, OPow(a, k - 1))

\* a0 + a1 w + a2 i + a3 w^3,  w = (1+i)/sqrt2, w^3 = (-1+i)/sqrt2
ORe(a) == <<a[1], RSub(a[2], a[4])>>      \* a0 + (a1 - a3)/sqrt2
OIm(a) == <<a[3], RAdd(a[2], a[4])>>      \* a2 + (a1 + a3)/sqrt2
OIsReal(a) == OIm(a) = <<Zero, Zero>>

\* ---- inverse in Q(w): write z = u + w v with u = a0 + a2 i, v = a1 + a3 i in Q(i); the conjugate
\* over Q(i) sends w -> -w, so z * zbar = u^2 - i v^2 is Gaussian, and a Gaussian is inverted by its norm.
OConjW(a) == <<a[1], RNeg(a[2]), a[3], RNeg(a[4])>>
OInv(a) ==
  LET g  == OMul(a, OConjW(a))                 \* = p + q i  (components 2 and 4 vanish)
      p  == g[1]  q == g[3]
      nn == RAdd(RMul(p, p), RMul(q, q))
      gi == <<RDiv(p, nn), Zero, RNeg(RDiv(q, nn)), Zero>>
  IN  OMul(OConjW(a), gi)
ODiv(a, b) == OMul(a, OInv(b))
OValid(a) == Valid(a[1]) /\ Valid(a[2]) /\ Valid(a[3]) /\ Valid(a[4])
=============================================================================
