------------------------------ MODULE MC_Wynn ------------------------------
(* Behaviours = sequences L + sum_i a_i q_i^j fed one term at a time to the code-shaped EpsAlg *)
(* update; invariant: what it returns is the epsilon-table entry of highest even order (by the *)
(* defining rhombus rule), and equals L once 2k+1 terms of a k-transient sequence are in.      *)
(* Also emits dea3 cases (three consecutive terms) with the exact branch/result/abserr.        *)
EXTENDS Wynn, Json
CONSTANTS KMaxTr, EmitOn
VARIABLES k, L, a, q, s, tab, okk
vars == <<k, L, a, q, s, tab, okk>>

Ls == {Zero, R(1), Q(-3, 2)}
As == {R(1), R(-2), Q(1, 3)}
Qs == {Q(1, 2), Q(-1, 2), Q(1, 3), Q(-2, 3), Q(3, 4), R(2), Q(-3, 2), Q(1, 5)}

Qs3 == {Q(1, 2), Q(-1, 2), Q(1, 3), Q(2, 3)}       \* smaller ratio set for three transients (7 terms)
As3 == {R(1), R(-2)}

Term(j) == LET RECURSIVE sm(_)
               sm(i) == IF i = 0 THEN L ELSE RAdd(RMul(a[i], RPow(q[i], j)), sm(i - 1))
           IN  sm(k)

Init == /\ k \in 1..KMaxTr /\ L \in Ls
        /\ a \in [1..k -> IF k >= 3 THEN As3 ELSE As] /\ q \in [1..k -> IF k >= 3 THEN Qs3 ELSE Qs]
        /\ \A i, j \in 1..k : i < j => RLt(q[i], q[j])         \* distinct ratios, one order only
        /\ s = <<>> /\ tab = <<>> /\ okk = TRUE

Feed == /\ okk /\ Len(s) < 2 * k + 1
        /\ LET x == Term(Len(s)) r == EpsAlgFeed(tab, x) IN
             /\ s' = Append(s, x)
             /\ okk' = r[1]
             /\ tab' = r[2]
        /\ UNCHANGED <<k, L, a, q>>
Next == Feed

Fits32(x) == Valid(x)
\* keep TLC's 32-bit integers safe: stop feeding when table entries grow too large (counted by the harness)
Bounded == (\A i \in 1..Len(tab) : Fits32(tab[i])) /\ (\A i \in 1..Len(s) : Valid(s[i]))

InvMatchesTable == (okk /\ Len(s) > 0) => LET e == Estlim(s) IN e[1] => e[2] = EpsAlgResult(tab)
InvRecoversLimit == (okk /\ Len(s) = 2 * k + 1) => EpsAlgResult(tab) = L

\* homogeneity: scaling the sequence scales every even-order entry (used by the harness to reach
\* magnitudes far outside the exact domain)
Scaled(c) == [i \in 1..Len(s) |-> RMul(c, s[i])]
InvScaleCovariant ==
  (okk /\ Len(s) > 0) =>
     \A c \in {R(2), Q(1, 4), R(-3)} :
        LET e == Estlim(s)  f == EpsDef(Scaled(c), 2 * ((Len(s) - 1) \div 2), (Len(s) - 1) - 2 * ((Len(s) - 1) \div 2))
        IN  (e[1] /\ f[1]) => f[2] = RMul(c, e[2])

D3 == IF Len(s) >= 3 THEN Dea3(s[Len(s) - 2], s[Len(s) - 1], s[Len(s)]) ELSE [valid |-> FALSE, conv |-> TRUE, result |-> Zero, err |-> Zero, epsc |-> Zero]
InvDea3Geometric ==   \* single geometric transient: dea3 returns L exactly (outside the guards)
  (k = 1 /\ Len(s) >= 3 /\ D3.valid /\ ~D3.conv) => D3.result = L /\ RLeq(RAbs(RSub(D3.result, L)), D3.err)

Rec == [k |-> k, L |-> L, a |-> a, q |-> q, s |-> s, ok |-> okk,
        est |-> IF okk /\ Len(s) > 0 THEN EpsAlgResult(tab) ELSE Zero,
        dom |-> IF Len(s) >= 3 THEN DomainOK(s[Len(s) - 2], s[Len(s) - 1], s[Len(s)]) ELSE FALSE,
        d3 |-> D3]
Emit == (EmitOn /\ Len(s) > 0) => PrintT(<<"@@", ToJson(Rec)>>)
=============================================================================
