------------------------------- MODULE History -------------------------------
(***************************************************************************)
(* C09: results depend only on (function, point, configuration).           *)
(* The mutable state that survives a call of a derivative object:          *)
(*   cache  - the module-level rule cache FD_RULES, as its key set         *)
(*            (step_ratio, parity, num_terms)                              *)
(*   gens   - per step-generator instance the remembered _state            *)
(*            (x, method, n, order) overwritten at every call              *)
(*   objs   - per derivative object n / order / method and the generator   *)
(*            it holds (its own default one, or a shared user instance)    *)
(* Operations: Construct, Call, Nested, SetN, SetOrder, SetMethod, ClearCache,     *)
(* Prepopulate.  What a Call reads is read AFTER it overwrote the          *)
(* generator state, so its abstract result is a pure function of the       *)
(* object's current configuration, the generator's options and x:          *)
(* invariant ResultIsPure.  `hist` records operation + expected projected  *)
(* state and is what the replay driver executes against the real library.  *)
(***************************************************************************)
EXTENDS Rules, Sequences, FiniteSets, Json

CONSTANTS NObj, MaxOps, EmitOn
VARIABLES objs, gens, cache, hist, last

vars == <<objs, gens, cache, hist, last>>
view == <<objs, gens, cache>>

\* ---- the configuration pool: chosen so that configurations collide on each component of the key
Cfg(c) == CASE c = 1 -> [m |-> "central",  n |-> 1, o |-> 2]
            [] c = 2 -> [m |-> "central",  n |-> 2, o |-> 2]
            [] c = 3 -> [m |-> "central",  n |-> 1, o |-> 4]
            [] c = 4 -> [m |-> "forward",  n |-> 1, o |-> 2]
            [] c = 5 -> [m |-> "backward", n |-> 2, o |-> 1]
            [] c = 6 -> [m |-> "forward",  n |-> 2, o |-> 1]
            [] c = 7 -> [m |-> "central",  n |-> 3, o |-> 2]
            [] c = 8 -> [m |-> "complex",  n |-> 1, o |-> 2]
            [] c = 9 -> [m |-> "complex",  n |-> 2, o |-> 2]
            [] c = 10 -> [m |-> "central", n |-> 0, o |-> 2]
            [] c = 11 -> [m |-> "backward", n |-> 1, o |-> 3]
            [] c = 12 -> [m |-> "multicomplex", n |-> 2, o |-> 2]
NCfg == 12
\* user generator instances that may be shared: 1 = MaxStepGenerator(base_step=1, num_steps=12)
\* (ratio left to its n-dependent default), 2 = MinStepGenerator(base_step=2^-10, step_ratio=2, num_steps=10)
\* generator 0 = the object's own default generator
SharedGens == {1, 2, 3, 4, 5, 6}  \* 3 = MaxStepGenerator(base_step=1, step_ratio=1.64, num_steps=12): a ratio close to the default 1.6
                            \* 4 = MinStepGenerator(base_step=2^-13, step_ratio=2, num_steps=2): so few steps that the extrapolation
                            \*     stages see fewer estimates than they have terms (truncated rules must not outlive the call)
Xs == {1, 2, 3, 4}
RealStep == {"central", "forward", "backward"}

NoObj == [alive |-> FALSE, m |-> "central", n |-> 1, o |-> 2, g |-> 0]

\* step ratio the object's generator delivers for derivative order n
\* 5 = MaxStepGenerator(base_step=1, step_ratio=1.3, num_steps=12), 6 = MinStepGenerator(base_step=2^-8, step_ratio=1.3, num_steps=10): the SAME
\* inexact ratio reaches the rule once raw (Max) and once made exact (Min); both mean the one cache entry of the exact ratio
RatioTag(g, n) == IF g \in {2, 4} THEN <<2, 1>> ELSE IF g = 3 THEN <<41, 25>> ELSE IF g \in {5, 6} THEN <<13, 10>> ELSE IF n = 1 THEN <<2, 1>> ELSE <<8, 5>>

UsesRule(ob) == ob.n > 0 /\ ob.m # "multicomplex"
KeyOf(ob) == <<RatioTag(ob.g, ob.n), Parity(ob.m, ob.n, ob.o), NumTerms(ob.m, ob.n, ob.o)>>

\* the abstract result of a call: everything the call reads
Pure(ob, x) == [m |-> ob.m, n |-> ob.n, mo |-> IF ob.n = 0 THEN 0 ELSE MethodOrder(ob.m, ob.n, ob.o),
                ratio |-> RatioTag(ob.g, ob.n), g |-> ob.g, x |-> x,
                key |-> IF UsesRule(ob) THEN KeyOf(ob) ELSE <<>>]

GenId(i, ob) == IF ob.g = 0 THEN 10 + i ELSE ob.g      \* own generators are per object

Init == /\ objs = [i \in 1..NObj |-> NoObj]
        /\ gens = [k \in {} |-> <<>>]
        /\ cache = {}
        /\ hist = <<>>
        /\ last = [op |-> "init"]

Log(rec) == hist' = Append(hist, [op |-> rec, cache |-> cache', gens |-> gens'])
Snapshot(c, gg) == [cache |-> c, gens |-> [k \in DOMAIN gg |-> gg[k]]]

\* kw = 1: the constructor is also given step options (step_ratio, num_steps) although `step` is a generator instance; they
\* are not the generator's business: constructing an object never changes a generator other objects hold
Construct(i, c, g, kw) ==
  /\ Len(hist) < MaxOps
  /\ (kw = 1 => g # 0)
  /\ ~objs[i].alive                  \* each object slot is constructed once per history
  /\ objs' = [objs EXCEPT ![i] = [alive |-> TRUE, m |-> Cfg(c).m, n |-> Cfg(c).n, o |-> Cfg(c).o, g |-> g]]
  /\ gens' = IF g = 0 THEN [k \in (DOMAIN gens) \ {10 + i} |-> gens[k]] ELSE gens
  /\ UNCHANGED cache
  /\ last' = [op |-> "construct"]
  /\ Log([op |-> "construct", obj |-> i, cfg |-> c, gen |-> g, kw |-> kw, m |-> Cfg(c).m, n |-> Cfg(c).n, o |-> Cfg(c).o])

Call(i, x) ==
  /\ Len(hist) < MaxOps
  /\ objs[i].alive
  /\ LET ob == objs[i]
         gid == GenId(i, ob)
         st == <<x, ob.m, ob.n, IF ob.n = 0 THEN 0 ELSE MethodOrder(ob.m, ob.n, ob.o)>>
     IN  /\ gens' = IF ob.n = 0 THEN gens
                    ELSE IF gid \in DOMAIN gens THEN [gens EXCEPT ![gid] = st] ELSE gens @@ (gid :> st)
         /\ cache' = IF UsesRule(ob) THEN cache \cup {KeyOf(ob)} ELSE cache
         /\ last' = [op |-> "call", res |-> Pure(ob, x), obj |-> ob]
         /\ Log([op |-> "call", obj |-> i, x |-> x, m |-> ob.m, n |-> ob.n, o |-> ob.o, gen |-> ob.g,
                 key |-> IF UsesRule(ob) THEN KeyOf(ob) ELSE <<>>,
                 hit |-> UsesRule(ob) /\ KeyOf(ob) \in cache])
  /\ UNCHANGED objs

\* object i differentiates a function that itself calls object j at every evaluation (mixed partials,
\* a derivative inside an objective): j's calls run BETWEEN i's step generation and i's rule look-up, so
\* whatever i still reads after its evaluations must not come from a generator or cache j has touched
WriteGen(gg, gid, st) == IF gid \in DOMAIN gg THEN [gg EXCEPT ![gid] = st] ELSE gg @@ (gid :> st)
Nested(i, j, x) ==
  /\ Len(hist) < MaxOps
  /\ i # j /\ objs[i].alive /\ objs[j].alive
  /\ objs[i].n >= 1 /\ objs[j].n >= 1 /\ objs[i].m \in RealStep
  /\ LET oi == objs[i]  oj == objs[j]
         sti == <<x, oi.m, oi.n, MethodOrder(oi.m, oi.n, oi.o)>>
         stj == <<0, oj.m, oj.n, MethodOrder(oj.m, oj.n, oj.o)>>      \* x = 0: the inner call's last point is not modelled
         keys == (IF UsesRule(oi) THEN {KeyOf(oi)} ELSE {}) \cup (IF UsesRule(oj) THEN {KeyOf(oj)} ELSE {})
     IN  /\ gens' = WriteGen(WriteGen(gens, GenId(i, oi), sti), GenId(j, oj), stj)
         /\ cache' = cache \cup keys
         /\ last' = [op |-> "call", res |-> Pure(oi, x), obj |-> oi]
         /\ Log([op |-> "nested", obj |-> i, inner |-> j, x |-> x, m |-> oi.m, n |-> oi.n, o |-> oi.o, gen |-> oi.g,
                 im |-> oj.m, in |-> oj.n, io |-> oj.o, igen |-> oj.g])
  /\ UNCHANGED objs

SetN(i, v) ==
  /\ Len(hist) < MaxOps /\ objs[i].alive /\ objs[i].n # v
  /\ (objs[i].m = "multicomplex" => v <= 2)
  /\ objs' = [objs EXCEPT ![i].n = v]
  /\ UNCHANGED <<gens, cache>> /\ last' = [op |-> "setn"]
  /\ Log([op |-> "setn", obj |-> i, v |-> v])
SetOrder(i, v) ==
  /\ Len(hist) < MaxOps /\ objs[i].alive /\ objs[i].o # v
  /\ objs' = [objs EXCEPT ![i].o = v]
  /\ UNCHANGED <<gens, cache>> /\ last' = [op |-> "setorder"]
  /\ Log([op |-> "setorder", obj |-> i, v |-> v])
SetMethod(i, v) ==      \* "changing and then restoring ... a real-step method"
  /\ Len(hist) < MaxOps /\ objs[i].alive /\ objs[i].m \in RealStep /\ v \in RealStep /\ objs[i].m # v
  /\ objs' = [objs EXCEPT ![i].m = v]
  /\ UNCHANGED <<gens, cache>> /\ last' = [op |-> "setmethod"]
  /\ Log([op |-> "setmethod", obj |-> i, v |-> v])
ClearCache ==
  /\ Len(hist) < MaxOps /\ cache # {}
  /\ cache' = {} /\ UNCHANGED <<objs, gens>> /\ last' = [op |-> "clear"]
  /\ Log([op |-> "clear"])
Prepopulate(c, g) ==     \* somebody else (a throw-away rule object) fills the cache entry first
  /\ Len(hist) < MaxOps
  /\ UNCHANGED <<objs, gens>> /\ last' = [op |-> "prepopulate"]
  /\ LET ob == [alive |-> TRUE, m |-> Cfg(c).m, n |-> Cfg(c).n, o |-> Cfg(c).o, g |-> g]
     IN  /\ UsesRule(ob) /\ KeyOf(ob) \notin cache
         /\ cache' = cache \cup {KeyOf(ob)}
         /\ Log([op |-> "prepopulate", m |-> ob.m, n |-> ob.n, o |-> ob.o, ratio |-> RatioTag(g, ob.n), key |-> KeyOf(ob)])

Next ==
  \/ \E i \in 1..NObj, c \in 1..NCfg, g \in {0} \cup SharedGens, kw \in {0, 1} : Construct(i, c, g, kw)
  \/ \E i \in 1..NObj, x \in Xs : Call(i, x)
  \/ \E i, j \in 1..NObj, x \in {1, 2} : Nested(i, j, x)
  \/ \E i \in 1..NObj, v \in 0..3 : SetN(i, v)
  \/ \E i \in 1..NObj, v \in {1, 2, 4} : SetOrder(i, v)
  \/ \E i \in 1..NObj, v \in RealStep : SetMethod(i, v)
  \/ ClearCache
  \/ \E c \in {1, 3, 4, 7, 9}, g \in {0, 2, 3} : Prepopulate(c, g)

Spec == Init /\ [][Next]_vars

\* ---- design-level properties
\* the result of a call is a function of the object's current configuration, its generator's
\* options and x alone (it never mentions cache contents, other objects or earlier generator states)
ResultIsPure ==
  last.op = "call" => last.res = Pure(last.obj, last.res.x)
\* after a call the generator remembers exactly that call
GenRemembersLastCall ==
  last.op = "call" /\ last.obj.n # 0 =>
      \E k \in DOMAIN gens : gens[k] = <<last.res.x, last.obj.m, last.obj.n, last.res.mo>> \/ gens[k][1] = 0
\* every cached key is the key of some configuration's rule (no foreign keys)
CacheKeysWellFormed ==
  \A k \in cache : k[2] \in 0..6 /\ k[3] >= 1 /\ k[1] \in {<<2, 1>>, <<8, 5>>, <<41, 25>>, <<13, 10>>}
\* set-and-restore is the identity on the object projection
RestoreIsIdentity ==
  \A i \in 1..NObj : objs[i].alive => objs[i].n \in 0..3 /\ objs[i].o \in {1, 2, 3, 4}

\* ---- emission of complete histories for the replay driver (simulation mode)
Emit == (EmitOn /\ Len(hist) = MaxOps) => PrintT(<<"@@", ToJson([hist |-> hist])>>)
DepthBound == TLCGet("level") <= MaxOps
=============================================================================
