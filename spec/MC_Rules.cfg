CONSTANTS
  NMax = 10
  OMax = 10
  EmitOn = TRUE
INIT Init
NEXT Next
CHECK_DEADLOCK FALSE
INVARIANT InvWellFormed
INVARIANT InvCover
INVARIANT InvPresent
INVARIANT InvRowIsN
INVARIANT InvScaleSign
INVARIANT InvLeading
INVARIANT InvSpacing
INVARIANT InvEvalFirst
INVARIANT InvEnoughSteps
INVARIANT InvOffsets
CONSTRAINT Emit
