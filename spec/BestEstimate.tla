----------------------------- MODULE BestEstimate -----------------------------
(***************************************************************************)
(* The selection stage of every numdifftools estimate                      *)
(* (_Limit._add_error_to_outliers -> _get_arg_min -> _get_best_estimate),  *)
(* transcribed over exact rationals for ONE column of estimates:           *)
(*   der[i]  the extrapolated estimates (row i = step i), err[i] >= 0      *)
(*   q25, median, q75 : numpy's linear-interpolation percentiles           *)
(*   a row is penalised by |der - median| if any of                        *)
(*     - |der| < |median|/10  or  |der| > 10 |median|  (only if |median| > 1e-8) *)
(*     - der < q25 - 1.5 iqr  or  der > q75 + 1.5 iqr                      *)
(*   the row with the smallest penalised error wins; among equal minima the *)
(*   middle one (index list[len // 2]).                                    *)
(* The property-level content (C02: "a near-zero error estimate is never   *)
(* returned together with a wrong value"; C08: per column) rests on this   *)
(* stage; every table TLC enumerates is replayed into the real function.   *)
(***************************************************************************)
EXTENDS Rational, Sequences, SequencesExt, TLC

BI(c) == IF c THEN 1 ELSE 0
Sorted(s) == TLCEval(SortSeq(s, LAMBDA a, b : RLt(a, b)))

\* numpy.percentile(v, p) with linear interpolation, v sorted, 1-based sequence
Percentile(v, p) ==
  LET N == Len(v)
      pos == Q(p * (N - 1), 100)                 \* 0-based fractional position
      lo == RFloor(pos)
      fr == RSub(pos, R(lo))
  IN  IF lo + 1 >= N THEN v[N]
      ELSE RAdd(v[lo + 1], RMul(fr, RSub(v[lo + 2], v[lo + 1])))

\* the 32-bit rationals cannot compare everything: a comparison whose difference overflows makes
\* the whole table invalid (NaR entries), it is never silently decided
Cmp(a, b) == Valid(RSub(a, b))
Comparable(der) == \A i, j \in 1..Len(der) : Cmp(der[i], der[j])
Penalty(der) ==
  LET v == Sorted(der)
      q25 == Percentile(v, 25)  med == Percentile(v, 50)  q75 == Percentile(v, 75)
      iqr == RAbs(RSub(q75, q25))
      amed == RAbs(med)
      coarse == RLeq(Q(1, 1000), amed)                       \* avoids the overflow of 1e8 * numerator
      big == coarse \/ RLt(Q(1, 100000000), amed)
      bigOk == Cmp(Q(1, 1000), amed) /\ (coarse \/ Cmp(Q(1, 100000000), amed))
      lo == RSub(q25, RMul(Q(3, 2), iqr))
      hi == RAdd(q75, RMul(Q(3, 2), iqr))
  IN  TLCEval([i \in 1..Len(der) |->
         LET d == der[i]
             ok == /\ Comparable(der) /\ bigOk /\ Cmp(RAbs(d), RDivInt(amed, 10)) /\ Cmp(RMulInt(amed, 10), RAbs(d))
                   /\ Cmp(d, lo) /\ Cmp(hi, d)
             \* numpy adds and multiplies BOOLEAN arrays as OR and AND: a row is penalised once, however many tests it fails
             w == BI(((RLt(RAbs(d), RDivInt(amed, 10)) \/ RLt(RMulInt(amed, 10), RAbs(d))) /\ big)
                     \/ RLt(d, lo) \/ RLt(hi, d))
         IN  IF ok THEN RMulInt(RAbs(RSub(d, med)), w) ELSE NaR])

Penalised(der, err) == LET p == Penalty(der) IN TLCEval([i \in 1..Len(der) |-> RAdd(err[i], p[i])])

ArgMin(e) ==     \* 1-based row: the middle one of the rows holding the minimum
  LET mn == CHOOSE x \in {e[i] : i \in 1..Len(e)} : \A i \in 1..Len(e) : RLeq(x, e[i])
      idx == SelectSeq([i \in 1..Len(e) |-> i], LAMBDA i : e[i] = mn)
  IN  idx[(Len(idx) \div 2) + 1]

Best(der, err) ==
  LET e == Penalised(der, err)  k == TLCEval(IF \A i \in 1..Len(e) : Valid(e[i]) THEN ArgMin(e) ELSE 1)
  IN  TLCEval([row |-> k - 1, value |-> der[k], error |-> e[k], errors |-> e])

AllValidSeq(s) == \A i \in 1..Len(s) : Valid(s[i])
=============================================================================
