----------------------------- MODULE MC_JetsSelf -----------------------------
(* self-test of the jet algebra against textbook series (evaluated by TLC at start-up) *)
EXTENDS Jets
VARIABLE x
U == JVar(One)
Co(a, k) == a[k + 1]
ASSUME JExp(U)[4] = Q(1, 6) /\ JExp(U)[7] = Q(1, 720)
ASSUME Co(JSin(U), 3) = Q(-1, 6) /\ Co(JCos(U), 4) = Q(1, 24) /\ Co(JSin(U), 2) = Zero
ASSUME Co(JTan(U), 3) = Q(1, 3) /\ Co(JTan(U), 5) = Q(2, 15) /\ Co(JTan(U), 7) = Q(17, 315)
ASSUME Co(JTanh(U), 5) = Q(2, 15) /\ Co(JTanh(U), 3) = Q(-1, 3)
ASSUME Co(JArctan(U), 5) = Q(1, 5) /\ Co(JArctan(U), 3) = Q(-1, 3)
ASSUME Co(JArcsin(U), 3) = Q(1, 6) /\ Co(JArcsin(U), 5) = Q(3, 40)
ASSUME Co(JArcsinh(U), 5) = Q(3, 40) /\ Co(JArctanh(U), 7) = Q(1, 7)
ASSUME Co(JSqrt(JAddC(U, One)), 2) = Q(-1, 8) /\ Co(JSqrt(JAddC(U, One)), 3) = Q(1, 16)
ASSUME Co(JLog1p(U), 4) = Q(-1, 4) /\ Co(JExpm1(U), 0) = Zero
ASSUME Co(JPow(JAddC(U, One), Q(3, 2)), 3) = Q(-1, 16) /\ Co(JPow(JAddC(U, One), Q(-1, 2)), 2) = Q(3, 8)
ASSUME LET e == JExp(JSin(U)) IN Co(e, 2) = Q(1, 2) /\ Co(e, 3) = Zero /\ Co(e, 4) = Q(-1, 8) /\ Co(e, 5) = Q(-1, 15)
ASSUME LET d == JDiv(JConst(One), JSub(JConst(R(2)), U)) IN Co(d, 3) = Q(1, 16)
ASSUME Co(JSinh(JVar(R(2))), 3) = Q(4, 3) /\ Co(JCosh(U), 2) = Q(1, 2)
ASSUME Co(JIPow(JAddC(U, One), 3), 2) = R(3)
Init == x = 0
Next == UNCHANGED x
=============================================================================
