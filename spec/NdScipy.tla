------------------------------- MODULE NdScipy -------------------------------
(***************************************************************************)
(* numdifftools.nd_scipy.Jacobian / Gradient: thin wrappers around scipy's *)
(* approx_derivative.  What the wrapper itself decides, and the property   *)
(* demands, is finite and discrete:                                        *)
(*   - the method map central -> 3-point, forward -> 2-point, complex -> cs*)
(*   - the result shape: (m, n) for f: R^n -> R^m; Gradient: (n,) and a    *)
(*     0-d value for n = 1                                                 *)
(*   - with bounds given, every evaluation lies in the box (scipy is       *)
(*     OBSERVED, not modelled: the harness records its evaluations)        *)
(*   - extra positional / keyword arguments reach f on every evaluation    *)
(* A case = (n, m, method, where x sits in the box, relative step).        *)
(***************************************************************************)
EXTENDS Integers, Sequences, TLC, Json
CONSTANTS EmitOn
VARIABLES n, m, method, place, rel, cls
vars == <<n, m, method, place, rel, cls>>
MethodMap(a) == CASE a = "central" -> "3-point" [] a = "forward" -> "2-point" [] a = "complex" -> "cs"
\* the "-open" placements are half-open boxes: the LAST coordinate is unbounded on both sides (lb = -inf, ub = +inf) while the
\* other coordinates keep the finite faces of the base placement (for n = 1: only the lower bound is infinite)
Places == {"nobounds", "interior", "near-face", "on-face", "corner", "near-face-open", "on-face-open", "corner-open"}
Init == /\ n \in 1..6 /\ m \in 1..5 /\ method \in {"central", "forward", "complex"} /\ place \in Places
        /\ rel \in {0, 1, 2}                 \* 0 = default step, 1 = 1e-4, 2 = 1e-2
        /\ cls \in {"Jacobian", "Gradient"} /\ (cls = "Gradient" => m = 1)
Next == UNCHANGED vars
Shape == IF cls = "Jacobian" THEN <<m, n>> ELSE IF n = 1 THEN <<>> ELSE <<n>>
\* how many coordinates of x sit exactly on a bound
OnBound == CASE place = "on-face" -> 1 [] place = "corner" -> n [] place = "on-face-open" -> (IF n > 1 THEN 1 ELSE 0) [] place = "corner-open" -> n - 1 [] OTHER -> 0
InvShape == Len(Shape) \in 0..2
Emit == EmitOn => PrintT(<<"@@", ToJson([n |-> n, m |-> m, method |-> method, scipy |-> MethodMap(method), place |-> place, rel |-> rel, cls |-> cls, shape |-> Shape, onbound |-> OnBound])>>)
=============================================================================
