---------------------------- MODULE MC_TaylorFams ----------------------------
(* Closed forms of the Taylor coefficients used by the C17/C18 replay, checked by TLC against the *)
(* jet recurrences of spec/Jets.tla for every k <= K at rational parameters (the harness          *)
(* evaluates the same closed forms at complex expansion points and for k up to 100: an            *)
(* extrapolation that is flagged in the evidence), and the documented size table of the FFT.      *)
EXTENDS Jets
VARIABLE x
U(c) == JVar(c)
Co(a, k) == a[k + 1]
Same(p, q) == (Valid(p) /\ Valid(q)) => p = q      \* overflowing instances are not compared
\* exp(a u): a^k / k!
ASSUME \A a \in {Q(5, 2), Q(-1, 2)} : \A k \in 0..K : Same(Co(JExp(U(a)), k), RDivInt(RPow(a, k), Fact(k)))
\* 1/(b - u): b^-(k+1)
ASSUME \A b \in {R(2), Q(-3, 2)} : \A k \in 0..K :
          Same(Co(JDiv(JConst(One), JSub(JConst(b), U(One))), k), RPow(b, -(k + 1)))
\* sin(a u), cos(a u): a^k/k! * sin(k pi/2), a^k/k! * cos(k pi/2)
SinQ(k) == CASE k % 4 = 1 -> One [] k % 4 = 3 -> R(-1) [] OTHER -> Zero
CosQ(k) == CASE k % 4 = 0 -> One [] k % 4 = 2 -> R(-1) [] OTHER -> Zero
ASSUME \A a \in {R(2), Q(1, 2)} : \A k \in 0..K :
          /\ Same(Co(JSin(U(a)), k), RMul(RDivInt(RPow(a, k), Fact(k)), SinQ(k)))
          /\ Same(Co(JCos(U(a)), k), RMul(RDivInt(RPow(a, k), Fact(k)), CosQ(k)))
\* log(1 + u): (-1)^(k+1) / k
ASSUME \A k \in 1..K : Co(JLog1p(U(One)), k) = Q(IF k % 2 = 1 THEN 1 ELSE -1, k)
\* (1 + u)^p: binomial(p, k)
RECURSIVE Binom(_, _)
Binom(p, k) == IF k = 0 THEN One ELSE RMul(Binom(p, k - 1), RDivInt(RSub(p, R(k - 1)), k))
ASSUME \A p \in {Q(-3, 2), Q(5, 2)} : \A k \in 0..8 : Co(JPow(JAddC(U(One), One), p), k) = Binom(p, k)

\* documented table of numdifftools.fornberg._num_taylor_coefficients
NumCoef(n) == IF n <= 6 THEN 8 ELSE IF n <= 12 THEN 16 ELSE IF n <= 25 THEN 32 ELSE IF n <= 51 THEN 64
              ELSE IF n <= 103 THEN 128 ELSE 256
ASSUME \A n \in 1..192 : NumCoef(n) >= n + 1
Init == x = 0
Next == UNCHANGED x
=============================================================================
