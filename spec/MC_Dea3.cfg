CONSTANTS
  EmitOn = TRUE
INIT Init
NEXT Next
CHECK_DEADLOCK FALSE
INVARIANT InvGeometric
INVARIANT InvNonNegative
INVARIANT InvCovariant
CONSTRAINT Emit
