------------------------------ MODULE MultiJets ------------------------------
(***************************************************************************)
(* Second-order jets of functions of d variables over exact rationals:     *)
(* [v |-> value, g |-> gradient (sequence), H |-> Hessian (sequence of     *)
(* rows)] at the expansion point u = x - x0 = 0.  Building blocks:         *)
(*   Lin(a)        the linear form a.u                                     *)
(*   Compose(f, j) f(j) for an elementary f with rational (f, f', f'') at  *)
(*                 the value of j (chain rule)                             *)
(*   Add, Scale, Mul (Leibniz), Quad(Q) = u'Qu/2                           *)
(* This is the exact oracle for Jacobian / Gradient / Hessian / Hessdiag   *)
(* (C03, C04, C19): the first-order part is the Jacobian row, the second   *)
(* the Hessian.                                                            *)
(***************************************************************************)
EXTENDS Rational, TLC

Vec(d, F(_)) == [i \in 1..d |-> F(i)]
ZeroVec(d) == [i \in 1..d |-> Zero]
ZeroMat(d) == [i \in 1..d |-> [j \in 1..d |-> Zero]]

MJConst(d, q) == [v |-> q, g |-> ZeroVec(d), H |-> ZeroMat(d)]
Lin(a) == [v |-> Zero, g |-> a, H |-> ZeroMat(Len(a))]       \* a.u at u = 0
Quad(Qm) == [v |-> Zero, g |-> ZeroVec(Len(Qm)), H |-> Qm]    \* u'Qu/2, Q symmetric

MJAdd(a, b) == LET d == Len(a.g) IN
  [v |-> RAdd(a.v, b.v), g |-> TLCEval([i \in 1..d |-> RAdd(a.g[i], b.g[i])]),
   H |-> TLCEval([i \in 1..d |-> [j \in 1..d |-> RAdd(a.H[i][j], b.H[i][j])]])]
MJScale(q, a) == LET d == Len(a.g) IN
  [v |-> RMul(q, a.v), g |-> TLCEval([i \in 1..d |-> RMul(q, a.g[i])]),
   H |-> TLCEval([i \in 1..d |-> [j \in 1..d |-> RMul(q, a.H[i][j])]])]
\* (ab)'' = a'' b + a' b'^T + b' a'^T + a b''
MJMul(a, b) == LET d == Len(a.g) IN
  [v |-> RMul(a.v, b.v),
   g |-> TLCEval([i \in 1..d |-> RAdd(RMul(a.g[i], b.v), RMul(a.v, b.g[i]))]),
   H |-> TLCEval([i \in 1..d |-> [j \in 1..d |->
            RAdd(RAdd(RMul(a.H[i][j], b.v), RMul(a.v, b.H[i][j])),
                 RAdd(RMul(a.g[i], b.g[j]), RMul(b.g[i], a.g[j])))]])]

\* (f(0), f'(0), f''(0)) of the elementary functions at the value 0, log/sqrt at 1
Elem(name) ==
  CASE name = "exp" -> <<One, One, One>> [] name = "sin" -> <<Zero, One, Zero>> [] name = "cos" -> <<One, Zero, R(-1)>>
    [] name = "sinh" -> <<Zero, One, Zero>> [] name = "cosh" -> <<One, Zero, One>> [] name = "tanh" -> <<Zero, One, Zero>>
    [] name = "tan" -> <<Zero, One, Zero>> [] name = "arctan" -> <<Zero, One, Zero>> [] name = "log1p" -> <<Zero, One, R(-1)>>
    [] name = "expm1" -> <<Zero, One, One>> [] name = "id" -> <<Zero, One, Zero>>
    [] name = "sq1p" -> <<One, R(2), R(2)>>             \* (1 + t)^2
    [] name = "recip1p" -> <<One, R(-1), R(2)>>         \* 1 / (1 + t)
\* chain rule for f(j) with j.v = 0
Compose(name, j) == LET d == Len(j.g) f == Elem(name) IN
  [v |-> f[1],
   g |-> TLCEval([i \in 1..d |-> RMul(f[2], j.g[i])]),
   H |-> TLCEval([i \in 1..d |-> [k \in 1..d |-> RAdd(RMul(f[2], j.H[i][k]), RMul(f[3], RMul(j.g[i], j.g[k])))]])]

Symmetric(Hm) == \A i \in 1..Len(Hm) : \A j \in 1..Len(Hm) : Hm[i][j] = Hm[j][i]
MJValid(a) == Valid(a.v) /\ (\A i \in 1..Len(a.g) : Valid(a.g[i]))
              /\ (\A i \in 1..Len(a.H) : \A j \in 1..Len(a.H) : Valid(a.H[i][j]))
=============================================================================
