------------------------------ MODULE Bicomplex ------------------------------
(***************************************************************************)
(* The commutative ring of bicomplex numbers Q(i)[j]/(j^2 = -1) as         *)
(* 4-tuples of rationals <<re, im1, im2, im12>> = re + i*im1 + j*im2 +     *)
(* ij*im12  (numdifftools: z1 = re + i*im1, z2 = im2 + i*im12).            *)
(* The idempotents e1 = (1 + ij)/2, e2 = (1 - ij)/2 split the ring into    *)
(* two copies of Q(i):  zeta = e1 (z1 - i z2) + e2 (z1 + i z2);  sums and  *)
(* products act componentwise there.  A holomorphic f extends by           *)
(*    F(zeta) = e1 f(z1 - i z2) + e2 f(z1 + i z2)                          *)
(* and, where f has the Taylor jet a_k at a real point x,                  *)
(*    F(x + eps) = sum_k a_k eps^k   for a bicomplex perturbation eps.     *)
(***************************************************************************)
EXTENDS Rational, TLC

BZero == <<Zero, Zero, Zero, Zero>>
BOne  == <<One, Zero, Zero, Zero>>
BInt(a, b, c, d) == <<R(a), R(b), R(c), R(d)>>
BValid(z) == Valid(z[1]) /\ Valid(z[2]) /\ Valid(z[3]) /\ Valid(z[4])

BAdd(a, b) == <<RAdd(a[1], b[1]), RAdd(a[2], b[2]), RAdd(a[3], b[3]), RAdd(a[4], b[4])>>
BNeg(a)    == <<RNeg(a[1]), RNeg(a[2]), RNeg(a[3]), RNeg(a[4])>>
BSub(a, b) == BAdd(a, BNeg(b))
BScale(q, a) == <<RMul(q, a[1]), RMul(q, a[2]), RMul(q, a[3]), RMul(q, a[4])>>

\* Gaussian rationals <<re, im>>
CAdd(u, v) == <<RAdd(u[1], v[1]), RAdd(u[2], v[2])>>
CSub(u, v) == <<RSub(u[1], v[1]), RSub(u[2], v[2])>>
CMul(u, v) == <<RSub(RMul(u[1], v[1]), RMul(u[2], v[2])), RAdd(RMul(u[1], v[2]), RMul(u[2], v[1]))>>
CInv(u) == LET nn == RAdd(RMul(u[1], u[1]), RMul(u[2], u[2])) IN <<RDiv(u[1], nn), RNeg(RDiv(u[2], nn))>>
CI == <<Zero, One>>
CHalf(u) == <<RDivInt(u[1], 2), RDivInt(u[2], 2)>>

Z1(a) == <<a[1], a[2]>>
Z2(a) == <<a[3], a[4]>>
\* component formula, exactly the one numdifftools uses:  (z1 w1 - z2 w2) + j (z1 w2 + z2 w1)
BMul(a, b) ==
  LET p == CSub(CMul(Z1(a), Z1(b)), CMul(Z2(a), Z2(b)))
      q == CAdd(CMul(Z1(a), Z2(b)), CMul(Z2(a), Z1(b)))
  IN  <<p[1], p[2], q[1], q[2]>>

\* idempotent representation <<z1 - i z2, z1 + i z2>>
ToIdem(a) == <<CSub(Z1(a), CMul(CI, Z2(a))), CAdd(Z1(a), CMul(CI, Z2(a)))>>
FromIdem(p) ==      \* z1 = (p1 + p2)/2,  z2 = i (p1 - p2)/2
  LET z1 == CHalf(CAdd(p[1], p[2]))
      z2 == CMul(CI, CHalf(CSub(p[1], p[2])))
  IN  <<z1[1], z1[2], z2[1], z2[2]>>
Invertible(a) == LET p == ToIdem(a) IN p[1] # <<Zero, Zero>> /\ p[2] # <<Zero, Zero>>
BInv(a) == LET p == ToIdem(a) IN FromIdem(<<CInv(p[1]), CInv(p[2])>>)
BDiv(a, b) == BMul(a, BInv(b))
RECURSIVE BPow(_, _)
BPow(a, k) == IF k = 0 THEN BOne ELSE BMul(a, BPow(a, k - 1))

\* ---- integer powers as the implementation computes them (numdifftools fix 1c2a680): binary powering with ring
\* multiplications on z, or - for a negative exponent - on the reciprocal conj(z) / (z1^2 + z2^2); no logarithm involved
BConjInv(a) ==
  LET di == CInv(CAdd(CMul(Z1(a), Z1(a)), CMul(Z2(a), Z2(a))))        \* 1 / (complex modulus)^2
      p == CMul(Z1(a), di)
      q == CMul(<<RNeg(a[3]), RNeg(a[4])>>, di)
  IN  <<p[1], p[2], q[1], q[2]>>
RECURSIVE PowBin(_, _, _)
PowBin(base, k, acc) ==
  IF k = 0 THEN acc
  ELSE PowBin(IF k \div 2 > 0 THEN BMul(base, base) ELSE base, k \div 2, IF k % 2 = 1 THEN BMul(acc, base) ELSE acc)
BPowInt(a, k) == IF k >= 0 THEN PowBin(a, k, BOne) ELSE PowBin(BConjInv(a), -k, BOne)
\* ... is the k-fold product, and for negative k the power of the ring inverse (wherever the 32-bit rationals do not overflow)
ThmPowInt(a) == \A k \in 0..5 : BValid(BPow(a, k)) /\ BValid(BPowInt(a, k)) => BPowInt(a, k) = BPow(a, k)
ThmPowNeg(a) == Invertible(a) => /\ BConjInv(a) = BInv(a)
                                 /\ \A k \in 1..3 : BValid(BPow(BInv(a), k)) /\ BValid(BPowInt(a, -k)) => BPowInt(a, -k) = BPow(BInv(a), k)

\* the ring theorems TLC checks on a box of operands
ThmIdemMul(a, b) == BMul(a, b) = FromIdem(<<CMul(ToIdem(a)[1], ToIdem(b)[1]), CMul(ToIdem(a)[2], ToIdem(b)[2])>>)
ThmIdemRoundTrip(a) == FromIdem(ToIdem(a)) = a
ThmInv(a) == Invertible(a) => BMul(a, BInv(a)) = BOne
ThmCommutes(a, b) == BMul(a, b) = BMul(b, a)
=============================================================================
