"""C12 - Bicomplex numbers implement the holomorphic extension of every function.

spec/Bicomplex.tla: the ring by component formulas, the idempotent decomposition and its theorems
(TLC-checked on a box of operands).  MC_Bicomplex emits
  ring : exact results of + - * / and integer powers for every operand pair of the box,
  dir  : exact powers of perturbation directions e = i a + j b + ij c,
  fun  : (function, base point, direction, size) cases whose expected value is, by the
         decomposition theorem, FromIdem(f(ToIdem(zeta))) with the ordinary complex function f.
Jets of ExprMachine programs (spec/Jets.tla) give  F(x + delta e) = sum_k jet_k delta^k e^k.
All are replayed into numdifftools.multicomplex.Bicomplex, scalars and arrays."""
import math, random
import numpy as np
import vlib, exprs

EPS = np.finfo(float).eps


def bq(v):
    return [q[0] / q[1] for q in v]


def mk(B, v, shape=None):
    z1 = v[0] + 1j * v[1]
    z2 = v[2] + 1j * v[3]
    if shape:
        z1, z2 = np.full(shape, z1), np.full(shape, z2)
    return B(z1, z2)


def comps(z):
    return np.array([np.real(z.z1), np.imag(z.z1), np.real(z.z2), np.imag(z.z2)], dtype=float)


def close(got, want, tol):
    return np.all(np.abs(got - want) <= tol)


def ring_cases(B, recs, rep, stats):
    for r in recs:
        a, b = bq(r['a']), bq(r['b'])
        A, Bz = mk(B, a), mk(B, b)
        checks = [('add', lambda: A + Bz, r['sum']), ('sub', lambda: A - Bz, r['dif']), ('mul', lambda: A * Bz, r['prod']),
                  ('pow2', lambda: A ** 2, r['p2']), ('pow3', lambda: A ** 3, r['p3']),
                  ('rsub', lambda: 2.0 - A, [[2 * q[1] - q[0], q[1]] if i == 0 else [-q[0], q[1]] for i, q in enumerate(r['a'])]),
                  ('rmul', lambda: 3.0 * A, [[3 * q[0], q[1]] for q in r['a']])]
        one = [[1, 1], [0, 1], [0, 1], [0, 1]]
        checks += [('pow0', lambda: A ** 0, one), ('pow0.0', lambda: A ** 0.0, one), ('pow0:int64', lambda: A ** np.int64(0), one)]
        near = r['fam'] == 'near'
        # integer powers are ring operations (binary powering, BPowInt of the specification): the whole box, zero divisors included
        if 'p5' in r and all(q[1] != 0 for q in r['p5']):
            checks.append(('pow5', lambda: A ** 5, r['p5']))
            checks.append(('pow5.0', lambda: A ** 5.0, r['p5']))
            checks.append(('pow5:int64', lambda: A ** np.int64(5), r['p5']))
            checks.append(('pow5:float32', lambda: A ** np.float32(5), r['p5']))
        if r['inv'] and near:
            checks.append(('div', lambda: A / Bz, r['quot']))
        if r['ainv']:
            checks.append(('pow-1', lambda: A ** -1, r['pm1']))
            checks.append(('rdiv', lambda: 1.0 / A, r['pm1']))
            if 'pm2' in r and all(q[1] != 0 for q in r['pm2']):
                checks.append(('pow-2', lambda: A ** -2, r['pm2']))
        for name, fn, want in checks:
            w = np.array(bq(want))
            try:
                with np.errstate(all='ignore'):
                    got = comps(fn())
            except Exception as ex:
                rep.violation('ring-raises:' + name, dict(a=a, b=b, op=name), 'Bicomplex %s raised %r for a=%s b=%s' % (name, ex, a, b))
                continue
            stats['ring'] += 1
            mag = max(np.abs(w).max(), np.abs(np.array(a)).max(), 1.0)
            tol = 256 * EPS * mag * (max(np.abs(np.array(a)).max(), 1) ** 3 if 'pow' in name else 1.0)
            if not close(got.ravel(), w, tol):
                rep.violation('ring:' + name, dict(a=a, b=b, op=name, got=got.ravel().tolist(), want=w.tolist()),
                              'Bicomplex %s: a=%s b=%s gives %s, exact ring result %s' % (name, a, b, got.ravel().tolist(), w.tolist()))


CF = dict(exp=np.exp, sin=np.sin, cos=np.cos, sinh=np.sinh, cosh=np.cosh, tanh=np.tanh, arctan=np.arctan, arcsinh=np.arcsinh,
          expm1=np.expm1, exp2=lambda z: np.exp(z * np.log(2.0)), sech=lambda z: 1 / np.cosh(z), log=np.log, sqrt=np.sqrt,
          log2=lambda z: np.log(z) / np.log(2.0), log10=lambda z: np.log(z) / np.log(10.0),
          log1p=np.log1p, arcsin=np.arcsin, arccos=np.arccos, arctanh=np.arctanh, arccosh=np.arccosh, tan=np.tan,
          sec=lambda z: 1 / np.cos(z), cot=lambda z: np.cos(z) / np.sin(z), csc=lambda z: 1 / np.sin(z),
          coth=lambda z: np.cosh(z) / np.sinh(z), csch=lambda z: 1 / np.sinh(z), recip=lambda z: 1 / z, rsub=lambda z: 2.0 - z)
CF.update({'pow1.5': lambda z: z ** 1.5, 'pow-0.5': lambda z: z ** -0.5, 'ipow2': lambda z: z * z, 'ipow3': lambda z: z * z * z,
           'ipow-1': lambda z: 1 / z, 'ipow-3': lambda z: 1 / (z * z * z)})


def bfun(name, Z, B, method_call=False):
    if method_call and hasattr(Z, name) and not name.startswith(('pow', 'ipow')):
        return getattr(Z, name)()          # z.log1p() rather than numpy.log1p(z): numpy hands element COPIES to the method
    if name.startswith('pow') and name != 'powz':
        return Z ** float(name[3:])
    if name == 'powz':
        return Z ** B(0.5 + 0.25j, 0.125)
    if name.startswith('ipow'):
        return Z ** int(name[4:])
    if name == 'recip':
        return 1.0 / Z
    if name == 'rsub':
        return 2.0 - Z
    if name in ('sec', 'cot', 'csc', 'coth', 'sech', 'csch', 'exp2', 'log2', 'log10'):
        return getattr(Z, name)()
    return getattr(np, name)(Z)


TINY_FNS = ('log', 'sqrt', 'pow1.5', 'pow-0.5', 'recip', 'ipow-1', 'ipow3', 'log2', 'log10', 'log1p', 'arcsinh', 'tan', 'expm1')


def tiny_base_points(recs):
    """the same directions and relative sizes at base points of magnitude 2^-27 and 2^-40 (perturbations RELATIVE to x0)"""
    out, seen = [], set()
    for r in recs:
        if r['fn'] in TINY_FNS and (r['fn'], tuple(map(tuple, r['e'])), r['sh']) not in seen and r['sh'] in (4, 10, 20) and len(seen) < 2000:
            seen.add((r['fn'], tuple(map(tuple, r['e'])), r['sh']))
            for den in (2 ** 27, 2 ** 40):
                out.append(dict(r, x0=[1, den], rel=True))
            if r['fn'] in ('ipow3', 'pow1.5', 'sqrt', 'recip', 'ipow-1', 'pow-0.5'):
                out.append(dict(r, x0=[1, 2 ** 60], rel=True))      # |x| < 1e-15: the branch of __pow__ for a vanishing complex modulus
    return out


def fun_cases(B, recs, rep, stats):
    groups = {}
    recs = list(recs) + tiny_base_points(recs)
    for r in recs:
        name, x0, e, d = r['fn'], r['x0'][0] / r['x0'][1], bq(r['e']), 2.0 ** -r['sh']
        scale = abs(x0) if r.get('rel') else max(abs(x0), 1.0)              # perturbation of RELATIVE size delta
        v = [x0, e[1] * d * scale, e[2] * d * scale, e[3] * d * scale]
        z1, z2 = v[0] + 1j * v[1], v[2] + 1j * v[3]
        if name == 'powz':
            w1, w2 = (0.5 + 0.25j) - 1j * 0.125, (0.5 + 0.25j) + 1j * 0.125
            with np.errstate(all='ignore'):
                p1, p2 = (z1 - 1j * z2) ** w1, (z1 + 1j * z2) ** w2
        else:
            with np.errstate(all='ignore'):
                p1, p2 = CF[name](z1 - 1j * z2), CF[name](z1 + 1j * z2)
        w1c, w2c = (p1 + p2) / 2, 1j * (p1 - p2) / 2
        want = np.array([w1c.real, w1c.imag, w2c.real, w2c.imag])
        if not np.all(np.isfinite(want)):
            stats['skipped'] += 1
            continue
        if name != 'powz':
            gscale = max(abs(p1), abs(p2), 1.0) * max(1.0, 1.0 / max(abs(x0), 0.25))
            if r.get('rel'):
                gscale = max(abs(p1), abs(p2)) * (max(1.0, 3e-3 / abs(x0)) if name in ('log1p', 'arcsinh') else 1.0)
            groups.setdefault(name, []).append((v, want, gscale))
        for shape in (None, (3,)):
            try:
                with np.errstate(all='ignore'):
                    got = comps(bfun(name, mk(B, v, shape), B, method_call=shape is not None))
            except Exception as ex:
                rep.violation('fun-raises:' + name, dict(fn=name, x0=x0, e=e, delta=d), 'Bicomplex %s raised %r at %s' % (name, ex, v))
                break
            stats['fun'] += 1
            g = got.reshape(4, -1)
            mag = max(abs(p1), abs(p2), 1.0)       # absolute floor eps: the argument itself is rounded
            # rounding of the two idempotent evaluations, amplified by the conditioning of f near x0
            tol = 1e4 * EPS * mag * max(1.0, 1.0 / max(abs(x0), 0.25))
            if r.get('rel'):
                # tiny base point, perturbation relative to it: everything scales with |f| itself - no absolute floor
                tol = 1e4 * EPS * max(abs(p1), abs(p2))
                if name in ('log1p', 'arcsinh'):
                    # observed on the unchanged tree: numpy's COMPLEX log1p, and arcsinh = log(z + sqrt(z^2 + 1)), lose eps/|x|
                    # relative accuracy near 0 (4e-9 at x = 7e-9): only errors well beyond that level are reported for these two
                    tol = max(tol, 30 * EPS / abs(x0) * max(abs(p1), abs(p2)))
            bad = np.abs(g - want[:, None]).max()
            stats['max_fun_ratio'] = max(stats['max_fun_ratio'], bad / tol)
            if not bad <= tol:
                rep.violation('fun:' + name, dict(fn=name, x0=x0, e=e, delta=d, got=g[:, 0].tolist(), want=want.tolist(), array=shape is not None),
                              'Bicomplex.%s at x0=%r + %g*%s: components %s, holomorphic extension (idempotent decomposition) %s' % (name, x0, d * scale, e[1:], g[:, 0].tolist(), want.tolist()))
                break
            if e[2] == 0 and e[3] == 0:
                # z2 = 0: must reduce to the ordinary complex function
                c = CF[name](z1) if name != 'powz' else None
                if c is not None and not (abs(g[0, 0] + 1j * g[1, 0] - c) <= tol and abs(g[2, 0]) + abs(g[3, 0]) <= tol):
                    rep.violation('reduce:' + name, dict(fn=name, x0=x0, z1=[z1.real, z1.imag], got=g[:, 0].tolist(), want=[c.real, c.imag]),
                                  'Bicomplex.%s(z1=%r, z2=0) = %s does not reduce to the complex function value %r' % (name, z1, g[:, 0].tolist(), c))
                    break
    mixed_arrays(B, groups, rep, stats)


def mixed_arrays(B, groups, rep, stats):
    """all cases of one function as ONE array (base points of both signs and all sizes side by side), through the operator /
    numpy function and through the method: element k must still be the extension at element k"""
    for name, items in sorted(groups.items()):
        vs = np.array([it[0] for it in items])
        want = np.array([it[1] for it in items]).T
        tol = 1e4 * EPS * np.array([it[2] for it in items])
        for style in (False, True):
            try:
                with np.errstate(all='ignore'):
                    Z = B(vs[:, 0] + 1j * vs[:, 1], vs[:, 2] + 1j * vs[:, 3])
                    got = comps(bfun(name, Z, B, method_call=style)).reshape(4, -1)
            except Exception as ex:
                rep.violation('fun-raises:array:' + name, dict(fn=name), 'Bicomplex %s raised %r on a mixed array' % (name, ex))
                break
            stats['fun'] += 1
            bad = np.abs(got - want).max(axis=0) > tol
            if bad.any():
                k = int(np.argmax(bad))
                rep.violation('fun-array:' + name, dict(fn=name, element=k, argument=vs[k].tolist(), got=got[:, k].tolist(), want=want[:, k].tolist(), via='method' if style else 'operator/numpy'),
                              'Bicomplex.%s on an array of %d different arguments (%s): element %d (argument %s) is %s, holomorphic extension %s' % (
                                  name, len(items), 'method call' if style else 'operator / numpy call', k, vs[k].tolist(), got[:, k].tolist(), want[:, k].tolist()))
                break


def hol_cases(B, progs, dirs, tier, seed, rep, stats):
    rnd = random.Random(seed)
    per = 3 if tier == 'quick' else 10
    for r in progs:
        jf = exprs.jet_floats(r['jet'])
        if any(v is None for v in jf):
            continue
        rho = exprs.radius_estimate(r['jet'])
        f = None
        for _ in range(per):
            d = rnd.choice(dirs)
            e = bq(d['e'])
            if not any(e[1:]):
                continue
            if e[3] == 0 and abs(e[1]) == abs(e[2]):
                # eps is a zero divisor (one idempotent component vanishes): log-based operations are
                # ill-conditioned exactly there; excluded and counted
                stats['skipped_zero_divisor'] += 1
                continue
            a0 = rnd.choice([0.0, 0.75, -1.5, 3.0, -0.125])
            sh = rnd.choice([6, 10, 16, 24])
            delta = 2.0 ** -sh
            enorm = math.sqrt(sum(t * t for t in e))
            if delta * enorm > rho / 8:
                stats['skipped'] += 1
                continue
            want = np.zeros(4)
            S = 0.0
            for k, ck in enumerate(jf):
                pk = np.array(bq(d['pows'][k]))
                want += ck * delta ** k * pk
                S += abs(ck) * delta ** k * np.abs(pk).max()
            f = exprs.make_fun(r['prog'], 1.0, a0)
            v = [a0, e[1] * delta, e[2] * delta, e[3] * delta]
            for shape in (None, (2,)):
                try:
                    with np.errstate(all='ignore'):
                        got = comps(f(mk(B, v, shape)))
                except Exception as ex:
                    rep.violation('hol-raises', dict(prog=r['prog'], a0=a0, e=e, delta=delta), 'program %s raised %r on a bicomplex argument' % ('.'.join(r['prog']), ex))
                    break
                stats['hol'] += 1
                g = got.reshape(4, -1)
                s0 = max(max(abs(t) for t in jf), 1.0)      # absolute floor: intermediates of a program are O(1) even when it cancels to 0 (log(exp(x)) - x)
                tol = 1e4 * EPS * max(S, s0) * (1 + abs(a0)) + s0 * (delta * enorm * 8 / rho) ** len(jf) if rho != float('inf') else 1e4 * EPS * max(S, s0) * (1 + abs(a0))
                bad = np.abs(g - want[:, None]).max()
                stats['max_hol_ratio'] = max(stats['max_hol_ratio'], bad / tol)
                if not bad <= tol:
                    rep.violation('hol:' + '.'.join(r['prog'][1:]), dict(prog=r['prog'], a0=a0, e=e, delta=delta, got=g[:, 0].tolist(), want=want.tolist()),
                                  'program %s at %r + %g*%s: components %s, Taylor series of the holomorphic extension %s' % ('.'.join(r['prog']), a0, delta, e[1:], g[:, 0].tolist(), want.tolist()))
                    break
                # consequence used by the multicomplex method: a = b = 1, c = 0 gives imag1 = h f', imag12 = h^2 f''



# ---- the consequence the multicomplex method relies on: COMPONENT-WISE accuracy.  For zeta = x + delta*(i a + j b) the four
# components of F(zeta) have the sizes 1, delta, delta, delta^2 (f, delta f', delta f', delta^2 f''); each must be accurate relative to
# ITS OWN size ("imag1 and imag12 equal h f' and h^2 f'' up to O(h^2) relative truncation"), not merely relative to |F|.
def _bmul(u, v):
    a, b, c, d = u
    e, f, g, h = v
    return (a * e - b * f - c * g + d * h, a * f + b * e - c * h - d * g, a * g + c * e - b * h - d * f, a * h + d * e + b * g + c * f)


def _extra_jets(name, u):
    import fjets as J
    if name == 'sec':
        return J.div(J.const(1), J.sincos(u)[1])
    if name == 'csc':
        return J.div(J.const(1), J.sincos(u)[0])
    if name == 'cot':
        s, c = J.sincos(u)
        return J.div(c, s)
    if name == 'sech':
        return J.div(J.const(1), J.sinhcosh(u)[1])
    if name == 'csch':
        return J.div(J.const(1), J.sinhcosh(u)[0])
    if name == 'coth':
        s, c = J.sinhcosh(u)
        return J.div(c, s)
    if name == 'exp2':
        return J.exp(J.scale(math.log(2.0), u))
    if name == 'log2':
        return J.scale(1 / math.log(2.0), J.log(u))
    if name == 'log10':
        return J.scale(1 / math.log(10.0), J.log(u))
    if name == 'arccos':
        a = J.arcsin(u)
        return [math.acos(u[0])] + [-t for t in a[1:]]
    if name == 'arccosh':
        if u[0] < 1.2:
            raise J.DomainError('arccosh close to 1')
        return J.integrate(math.acosh(u[0]), u, J.div(J.const(1), J.sqrt(J.addc(J.mul(u, u), -1.0))))
    if name == 'ipow-1':
        return J.div(J.const(1), u)
    if name == 'ipow-2':
        return J.div(J.const(1), J.mul(u, u))
    if name == 'ipow4':
        return J.ipow(u, 4)
    if name == 'ipow5':
        return J.ipow(u, 5)
    if name == 'pow2.5':
        return J.power(u, 2.5)
    raise KeyError(name)


GRADED_EXTRA = ('sec', 'csc', 'cot', 'sech', 'csch', 'coth', 'exp2', 'log2', 'log10', 'arccos', 'arccosh', 'ipow-1', 'ipow-2', 'ipow4', 'ipow5', 'pow2.5')
GRADED_LOSSY = ('arcsin', 'arctan', 'arccos')
GRADED_POINTS = (0.3, -0.4, 0.8, -1.7, 2.5)
GRADED_TOL = 1e-10


def graded_cases(B, progs, tier, seed, rep, stats):
    import fjets
    rnd = random.Random(seed + 5)
    items, seen = [], set()
    for r in progs:
        k = tuple(r['prog'])
        if k in seen:
            continue
        seen.add(k)
        for p in GRADED_POINTS:
            try:
                j, isc = fjets.run_program(r['prog'], 1.0, p, want_scale=True)
            except fjets.DomainError:
                continue
            items.append(('.'.join(r['prog']), p, j, [o for o in GRADED_LOSSY if o in r['prog']], r['prog'], isc))
    for name in GRADED_EXTRA:
        for p in GRADED_POINTS + (1.6, -2.2):
            try:
                j = _extra_jets(name, fjets.var(p, 1.0))
            except (fjets.DomainError, ValueError, ZeroDivisionError):
                continue
            if all(math.isfinite(t) for t in j):
                items.append((name, p, j, [o for o in GRADED_LOSSY if o == name], None, 0.0))
    if tier == 'quick' and len(items) > 1500:
        items = rnd.sample(items, 1500)
    for name, p, jet, lossy, prog, isc in items:
        rho = exprs.radius_estimate([list(float(v).as_integer_ratio()) for v in jet])
        for sh in (26, 20, 13, 7):
            for (a, b) in ((1.0, 1.0), (1.0, 0.5)):
                delta = 2.0 ** -sh * max(abs(p), 1.0)
                if delta * 2 > rho / 8:
                    stats['graded_skipped'] += 1
                    continue
                e, pw = (0.0, a, b, 0.0), (1.0, 0.0, 0.0, 0.0)
                want, size = np.zeros(4), np.zeros(4)
                tail = np.zeros(4)
                for k, ck in enumerate(jet):
                    want += ck * delta ** k * np.array(pw)
                    size += abs(ck) * delta ** k * np.abs(pw)
                    if k >= len(jet) - 3:
                        tail = np.maximum(tail, abs(ck) * delta ** k * np.abs(pw))
                    pw = _bmul(pw, e)
                if (tail > 1e-13 * np.maximum(size, 1e-300)).any() and tail.max() > 0:
                    stats['graded_skipped'] += 1          # the truncated series has not converged at this size (cos(expm1(u)**3) at 2.5): no oracle
                    continue
                trunc = max(abs(t) for t in jet) * (delta * 2 * 8 / rho) ** len(jet) if rho != float('inf') else 0.0
                Z = mk(B, [p, a * delta, b * delta, 0.0], (2,) if sh == 20 else None)
                try:
                    with np.errstate(all='ignore'):
                        if prog is not None:
                            got = comps(exprs.make_fun(prog, 1.0, 0.0, powop={26: 'float', 20: 'int', 13: 'npint', 7: False}[sh])(Z))
                        else:
                            got = comps(bfun(name, Z, B))
                except Exception as ex:
                    rep.violation('graded-raises:' + name, dict(fn=name, x=p, delta=delta), '%s raised %r at %r + %g*(i%g + j%g)' % (name, ex, p, delta, a, b))
                    break
                g = got.reshape(4, -1)[:, 0]
                # sizes of the four components: f, delta f', delta f', delta^2 f'' (plus higher terms); a component that vanishes
                # identically is judged against the next smaller one
                lvl = np.array([1.0, delta, delta, delta * delta]) * max([abs(t) for t in jet[:5]] + [isc])      # isc: size of the program's intermediate values
                tol = GRADED_TOL * np.maximum(size, 1e-2 * lvl) + trunc
                ratio = float(np.max(np.abs(g - want) / tol))
                stats['graded'] += 1
                if not lossy:
                    stats['max_graded_ratio'] = max(stats['max_graded_ratio'], ratio)
                if not ratio <= 1.0:
                    i = int(np.argmax(np.abs(g - want) / tol))
                    rep.violation('graded:' + ('+'.join(lossy) if lossy else name), dict(fn=name, x=p, delta=delta, a=a, b=b, got=g.tolist(), want=want.tolist(), component=i),
                                  '%s at %r + %g*(i*%g + j*%g): component %s = %r, Taylor series of the holomorphic extension %r (relative error %.3g of that component, tolerance %g)' % (
                                      name, p, delta, a, b, ('real', 'imag1', 'imag2', 'imag12')[i], g[i], want[i], abs(g[i] - want[i]) / max(size[i], 1e-300), GRADED_TOL))
                    break
            else:
                continue
            break


OBJ_FNS = ['log', 'sqrt', 'pow1.5', 'pow-0.5', 'ipow3', 'ipow-1', 'recip', 'powz', 'arcsin', 'arccos', 'arctanh', 'log1p', 'log2', 'log10',
           'exp', 'tan', 'sec', 'cot', 'csch', 'arcsinh', 'expm1']
OBJ_VALS = {1: [0.5, 0.0, 0.0, 0.0], 2: [0.75, 0.015625, 0.03125, -0.0078125], 3: [0.375, -0.03125, 0.0625, 0.015625], 4: [0.625, 0.0, 0.125, 0.0]}


def obj_histories(B, tier, seed, rep, stats):
    """spec/BicomplexObj.tla: histories of Apply / in-place updates on one Bicomplex array"""
    cfg = ('CONSTANTS\n  NVals = 4\n  Fns = {%s}\n  MaxOps = 10\n  EmitOn = TRUE\nSPECIFICATION Spec\nCHECK_DEADLOCK FALSE\n'
           'INVARIANT ApplyReadsCurrent\nPROPERTY ApplyIsPure\nCONSTRAINT Emit\n') % ', '.join('"%s"' % f for f in OBJ_FNS)
    sim = vlib.tlc('BicomplexObj', cfg_text=cfg, simulate='num=%d' % (25 if tier == 'quick' else 400), depth=11, seed=seed + 3, workers=8, timeout=1800)
    vlib.require_ok(sim)
    if len(sim.records) < 50:
        raise vlib.MachineryError('BicomplexObj: too few histories (%d)' % len(sim.records))

    def ext(name, v):
        z1, z2 = v[0] + 1j * v[1], v[2] + 1j * v[3]
        with np.errstate(all='ignore'):
            if name == 'powz':
                p1, p2 = (z1 - 1j * z2) ** ((0.5 + 0.25j) - 1j * 0.125), (z1 + 1j * z2) ** ((0.5 + 0.25j) + 1j * 0.125)
            else:
                p1, p2 = CF[name](z1 - 1j * z2), CF[name](z1 + 1j * z2)
        a, b = (p1 + p2) / 2, 1j * (p1 - p2) / 2
        return np.array([a.real, a.imag, b.real, b.imag]), max(abs(p1), abs(p2), 1.0)
    for r in sim.records:
        Z = B(np.full(3, OBJ_VALS[1][0] + 1j * OBJ_VALS[1][1]), np.full(3, OBJ_VALS[1][2] + 1j * OBJ_VALS[1][3]))
        for step, e in enumerate(r['hist']):
            try:
                if e['op'] == 'setitem':
                    v, k = OBJ_VALS[e['v']], e['k'] - 1
                    w = B(v[0] + 1j * v[1], v[2] + 1j * v[3])
                    if e['how'] == 'index':
                        Z[k] = w
                    elif e['how'] == 'slice':
                        Z[k:k + 1] = w
                    else:
                        Z.z1[k], Z.z2[k] = w.z1, w.z2
                elif e['op'] == 'setall':
                    v = OBJ_VALS[e['v']]
                    Z.z1 = np.full(3, v[0] + 1j * v[1])
                    Z.z2 = np.full(3, v[2] + 1j * v[3])
                else:
                    with np.errstate(all='ignore'):
                        got = comps(bfun(e['fn'], Z, B, method_call=(step % 2 == 0))).reshape(4, -1)
                    stats['obj_applies'] += 1
                    for k in range(3):
                        want, mag = ext(e['fn'], OBJ_VALS[e['want'][k]])
                        tol = 1e4 * EPS * mag * 4.0
                        if not np.abs(got[:, k] - want).max() <= tol:
                            ops = ['%s%s' % (h['op'], [h.get(q) for q in ('fn', 'k', 'v', 'how') if q in h]) for h in r['hist'][:step + 1]]
                            rep.violation('object-history:' + e['fn'], dict(history=r['hist'][:step + 1], element=k, got=got[:, k].tolist(), want=want.tolist()),
                                          'after %s: element %d of Bicomplex.%s is %s, the holomorphic extension at the CURRENT element is %s' % (' ; '.join(ops[-4:]), k, e['fn'], got[:, k].tolist(), want.tolist()))
                            raise StopIteration
                    if comps(Z).reshape(4, -1).T.tolist() != [OBJ_VALS[i] for i in e['want']]:
                        rep.violation('object-mutated:' + e['fn'], dict(history=r['hist'][:step + 1]), 'Bicomplex.%s changed its argument in place' % e['fn'])
                        raise StopIteration
            except StopIteration:
                break
            except Exception as ex:
                rep.violation('object-raises', dict(history=r['hist'][:step + 1]), 'operation %s raised %r' % (e, ex))
                break
        stats['obj_histories'] += 1
    return sim


def run(tier, rep):
    seed = vlib.seed_from_env()
    from numdifftools.multicomplex import Bicomplex as B
    res = vlib.tlc('MC_Bicomplex', cfg='MC_Bicomplex.cfg', timeout=1800)
    if res.violated:
        raise vlib.MachineryError('MC_Bicomplex violates %s\n%s' % (res.violated, res.out[-1500:]))
    vlib.require_ok(res)
    cfg = open(vlib.SPEC + '/MC_Expr.cfg').read()
    if tier != 'quick':
        cfg = cfg.replace('MaxOps = 2', 'MaxOps = 3')
    pres = vlib.tlc('ExprMachine', cfg_text=cfg, tag='expr_c12', timeout=3000)
    vlib.require_ok(pres)
    stats = dict(obj_histories=0, obj_applies=0, ring=0, fun=0, hol=0, skipped=0, skipped_zero_divisor=0, max_fun_ratio=0.0, max_hol_ratio=0.0, graded=0, graded_skipped=0, max_graded_ratio=0.0)
    ring_cases(B, [r for r in res.records if r['fam'] in ('ring', 'near')], rep, stats)
    fun_cases(B, [r for r in res.records if r['fam'] == 'fun'], rep, stats)
    hol_cases(B, pres.records, [r for r in res.records if r['fam'] == 'dir'], tier, seed, rep, stats)
    if vlib.flag('graded'):
        graded_cases(B, pres.records, tier, seed, rep, stats)
    ores = obj_histories(B, tier, seed, rep, stats)
    states, trans, per = vlib.merge_tlc([res, pres, ores])
    cov = dict(states=states, transitions=trans, traces_validated_against_impl=stats['ring'] + stats['fun'] + stats['hol'] + stats['obj_histories'],
               samples=[[r for r in res.records if r['fam'] == 'fun'][17], dict(prog=pres.records[30]['prog'], jet=pres.records[30]['jet'][:5])],
               evaluations=stats['ring'] + stats['fun'] + stats['hol'],
               distinct_nontrivial=len({(r['fn'], tuple(r['x0']), tuple(map(tuple, r['e'])), r['sh']) for r in res.records if r['fam'] == 'fun' and (r['e'][2][0] or r['e'][3][0])}),
               rule='ring: all operand pairs of a 54-element box; fun: 35 functions/operators x base points of the real domain x 8 directions x 4 sizes (2^-4..2^-26 relative); hol: ExprMachine programs x random direction/size/base; non-trivial = perturbation with a non-zero j or ij component',
               tlc=per, **stats)
    assum = ['the ordinary complex function f is numpy\'s (principal branches); base points stay inside the real domain of f',
             'tolerance 1e4*eps*|f| (amplified near the origin); hol: plus the Taylor truncation bound (8|eps|/rho)^(K+1)',
             'functions with irrational jets everywhere (cot, csc, coth, csch, log2, log10, exp2) only through the idempotent formula']
    return cov, assum
