"""C17 - FFT Taylor coefficients are accurate within their reported error.

spec/TaylorFFT.tla models the radius-search controller with the numeric predicates as environment
choices; TLC checks FailedIffCap / ConvergedMeans / EnoughCircles / CirclesAfterRange for every
max_iter, min_iter, num_extrap and every outcome sequence.  Real runs of fornberg.taylor are
recorded through hook H4 and validated against it (Trace_Taylor).  Values: families whose
coefficient closed forms TLC checks against the jet recurrences (MC_TaylorFams) are expanded at
points of the unit square, n up to 100, radii 1e-5..1, step ratios 1.2..3, num_extrap 1..5."""
import json, math, os, random, shutil, cmath
import numpy as np
import vlib

EPS = np.finfo(float).eps
ENV = json.load(open(os.path.join(vlib.VERIF, 'envelopes.json')))


def binom(p, k):
    out = 1.0
    for j in range(k):
        out *= (p - j) / (j + 1.0)
    return out


def fams():
    F = []
    for a in (1.0, 2.5, -0.5):
        F.append(('exp(%gz)' % a, lambda z, a=a: np.exp(a * z), lambda z0, k, a=a: cmath.exp(a * z0) * a ** k / math.factorial(k), float('inf')))
    for b in (2.6, -3 + 1j):
        F.append(('1/(%s-z)' % b, lambda z, b=b: 1.0 / (b - z), lambda z0, k, b=b: (b - z0) ** -(k + 1), lambda z0, b=b: abs(b - z0)))
    for a in (1.0, 2.0):
        F.append(('sin(%gz)' % a, lambda z, a=a: np.sin(a * z), lambda z0, k, a=a: a ** k / math.factorial(k) * cmath.sin(a * z0 + k * math.pi / 2), float('inf')))
        F.append(('cos(%gz)' % a, lambda z, a=a: np.cos(a * z), lambda z0, k, a=a: a ** k / math.factorial(k) * cmath.cos(a * z0 + k * math.pi / 2), float('inf')))
    F.append(('log(3+z)', lambda z: np.log(3 + z), lambda z0, k: cmath.log(3 + z0) if k == 0 else (-1.0) ** (k + 1) / (k * (3 + z0) ** k), lambda z0: abs(3 + z0)))
    for p in (-1.5, 2.5):
        F.append(('(1+z/4)^%g' % p, lambda z, p=p: (1 + z / 4.0) ** p, lambda z0, k, p=p: binom(p, k) * (1 + z0 / 4.0) ** (p - k) / 4.0 ** k, lambda z0: abs(4 + z0)))
    F.append(('exp(z)sin(z)', lambda z: np.exp(z) * np.sin(z),
              lambda z0, k: ((1 + 1j) ** k * cmath.exp((1 + 1j) * z0) - (1 - 1j) ** k * cmath.exp((1 - 1j) * z0)) / (2j * math.factorial(k)), float('inf')))
    F.append(('z^3-2z+1', lambda z: z * z * z - 2 * z + 1, lambda z0, k: [z0 ** 3 - 2 * z0 + 1, 3 * z0 ** 2 - 2, 3 * z0, 1.0][k] if k < 4 else 0.0, float('inf')))
    return F


Z0S = [0.0, 0.5, 1 + 1j, 0.3 - 0.7j, -1.0, 1j]


def make_cases(tier, seed):
    rnd = random.Random(seed)
    F = fams()
    cases = []
    ns = [1, 6, 12, 20, 40, 100]
    for fi in range(len(F)):
        for z0 in Z0S:
            # default configuration, n <= 20
            cases.append((fi, z0, rnd.choice([1, 6, 12, 20]), None, None, None, True))
            for _ in range(2 if tier == 'quick' else 12):
                cases.append((fi, z0, rnd.choice(ns), rnd.choice([1e-5, 1e-3, 0.0059, 0.1, 1.0]), rnd.choice([1.2, 1.6, 2.0, 3.0]), rnd.choice([1, 2, 3, 5]), False))
    # cases that follow VERIF_SEED: n <= 12, where none of the three known defect classes has ever shown (swept seeds, DESIGN 12.10)
    rnd2 = random.Random(vlib.seed_from_env() + 17)
    for fi in range(len(F)):
        for _ in range(3 if tier == 'quick' else 20):
            cases.append((fi, rnd2.choice(Z0S), rnd2.randint(1, 12), rnd2.choice([1e-5, 1e-4, 1e-3, 0.0059, 0.05, 0.1, 1.0]), rnd2.choice([1.2, 1.4, 1.6, 2.0, 2.5, 3.0]), rnd2.choice([1, 2, 3, 4, 5]), False))
    return cases


def scaled_ok(a, b, fact):
    with np.errstate(all='ignore'):
        a, w = np.asarray(a), np.asarray(b) * fact
        fin = np.isfinite(w)
        return bool(np.allclose(a[fin], w[fin], rtol=1e-12, atol=0) and np.array_equal(np.isfinite(a), fin))


def run_case(case):
    vlib.use_repo()
    from numdifftools import fornberg as fb, _verif
    fi, z0, n, r, sr, ne, default = case
    name, f, exact, rad = fams()[fi]
    kw = {} if default else dict(r=r, step_ratio=sr, num_extrap=ne)
    calls = [0]

    def fw(z):
        calls[0] += 1
        return f(z)
    del _verif.EVENTS[:]
    try:
        with np.errstate(all='ignore'):
            coefs, info = fb.taylor(fw, z0, n=n, full_output=True, **kw)
            evs = [dict(e) for e in _verif.EVENTS]
            der, dinfo = fb.derivative(f, z0, n=n, full_output=True, **kw)
    except Exception as ex:
        return dict(error='%s: %s' % (type(ex).__name__, str(ex)[:160]))
    it = [e for e in evs if e['ev'] == 'tay_iter']
    end = [e for e in evs if e['ev'] == 'tay_end']
    if len(end) != 1:
        return dict(machinery='expected one tay_end event, got %d' % len(end))
    R = float(info.final_radius)
    th = np.linspace(0, 2 * np.pi, 64, endpoint=False)
    with np.errstate(all='ignore'):
        fmax = float(np.max(np.abs(f(z0 + R * np.exp(1j * th)))))
    m = len(coefs)
    ex = np.array([exact(z0, k) for k in range(m)], dtype=complex)
    fact = np.array([float(math.factorial(k)) for k in range(m)])
    return dict(trace=dict(hd=dict(max_iter=end[0]['max_iter'], min_iter=end[0]['min_iter'], num_extrap=end[0]['num_extrap'],
                                   circles=end[0]['circles'], converged=end[0]['converged'], degenerate=end[0]['degenerate']),
                           ev=[dict(i=e['i'], converged=e['converged'], degenerate=e['degenerate'], needs_smaller=e['needs_smaller'],
                                    dirchg=e['dirchg'], numchg=e['numchg']) for e in it]),
                m=m, err=np.abs(np.asarray(coefs) - ex).tolist(), est=np.abs(np.asarray(info.error_estimate)).tolist(), exact=np.abs(ex).tolist(),
                calls=int(calls[0]), degenerate=bool(info.degenerate), failed=bool(info.failed), iterations=int(info.iterations), R=R, fmax=fmax,
                der_ok=bool(scaled_ok(der, coefs, fact) and scaled_ok(dinfo.error_estimate, info.error_estimate, fact)),
                rad=(rad(z0) if callable(rad) else rad))


def run_pole_on_circle(item):
    """the first circle passes exactly through the pole of 1/(b - z) (b = z0 + r): that circle carries a non-finite value and must
    not win the selection; the coefficients (b - z0)^-(k+1) come from the later, smaller circles"""
    vlib.use_repo()
    from numdifftools import fornberg as fb
    z0, r, n = item
    b = z0 + r
    try:
        with np.errstate(all='ignore'):
            c, info = fb.taylor(lambda z: 1.0 / (b - z), z0, n=n, r=r, full_output=True)
    except Exception as ex:
        return dict(error='%s: %s' % (type(ex).__name__, str(ex)[:160]))
    ex_ = np.array([(b - z0) ** -(k + 1.0) for k in range(len(c))])
    err = np.abs(np.asarray(c) - ex_)
    est = np.asarray(info.error_estimate, dtype=float)
    k = int(np.argmax(np.where(np.isfinite(err), err - 100 * est, np.inf)))
    return dict(bad=bool((~np.isfinite(np.asarray(c))).any() or not (err <= 100 * est + 1e-9 * np.abs(ex_)).all()), k=k, got=complex(np.asarray(c)[k]), want=float(ex_[k]), est=float(est[k]),
                status=[bool(info.degenerate), bool(info.failed)])


def run_reuse(item):
    """one Taylor object evaluated at a sequence of expansion points: every call is a fresh behaviour of TaylorFFT (the
    search starts from Init: no direction, no counters) and returns, bit for bit, what a new object returns"""
    vlib.use_repo()
    from numdifftools import fornberg as fb, _verif
    fi, n, pts, kw = item
    name, f, exact, rad = fams()[fi]
    out = []
    try:
        with np.errstate(all='ignore'):
            T = fb.Taylor(f, n=n, full_output=True, **kw)
            for z0 in pts:
                del _verif.EVENTS[:]
                c1, i1 = T(z0)
                evs = [dict(e) for e in _verif.EVENTS]
                c2, i2 = fb.Taylor(f, n=n, full_output=True, **kw)(z0)
                it = [e for e in evs if e['ev'] == 'tay_iter']
                end = [e for e in evs if e['ev'] == 'tay_end']
                same = (np.asarray(c1).tobytes() == np.asarray(c2).tobytes() and np.asarray(i1.error_estimate).tobytes() == np.asarray(i2.error_estimate).tobytes()
                        and (bool(i1.degenerate), bool(i1.failed), int(i1.iterations)) == (bool(i2.degenerate), bool(i2.failed), int(i2.iterations)))
                out.append(dict(z0=[complex(z0).real, complex(z0).imag], same=bool(same), status=[bool(i1.degenerate), bool(i1.failed), int(i1.iterations)],
                                fresh=[bool(i2.degenerate), bool(i2.failed), int(i2.iterations)],
                                trace=dict(hd=dict(max_iter=end[0]['max_iter'], min_iter=end[0]['min_iter'], num_extrap=end[0]['num_extrap'],
                                                   circles=end[0]['circles'], converged=end[0]['converged'], degenerate=end[0]['degenerate']),
                                           ev=[dict(i=e['i'], converged=e['converged'], degenerate=e['degenerate'], needs_smaller=e['needs_smaller'],
                                                    dirchg=e['dirchg'], numchg=e['numchg']) for e in it]) if len(end) == 1 else None))
            # the function-level interface with the SAME function object and other iteration caps, in both orders: a cap given
            # is the cap used (failed <=> the cap was reached), and a call never inherits another call's options
            fun_hist = []
            z0 = pts[0]
            for caps in (dict(max_iter=6), {}, dict(max_iter=6), dict(max_iter=9, min_iter=8), {}):
                del _verif.EVENTS[:]
                ca, ia = fb.taylor(f, z0, n=n, full_output=True, **dict(kw, **caps))
                end = [e for e in _verif.EVENTS if e['ev'] == 'tay_end']
                cb, ib = fb.Taylor(f, n=n, full_output=True, **dict(kw, **caps))(z0)
                fun_hist.append(dict(caps=caps, iterations=int(end[0]['circles']) if len(end) == 1 else int(ia.iterations) + 1, failed=bool(ia.failed), used_max_iter=end[0]['max_iter'] if len(end) == 1 else None,
                                     same=bool(np.asarray(ca).tobytes() == np.asarray(cb).tobytes() and (bool(ia.degenerate), bool(ia.failed), int(ia.iterations)) == (bool(ib.degenerate), bool(ib.failed), int(ib.iterations)))))
            # derivative(f, z0, n, options) is taylor(f, z0, n, options) * k! - for every option, not only the default ones
            import math as _m
            for ne_ in (1, 2, 4):
                ct, it_ = fb.taylor(f, z0, n=n, num_extrap=ne_, step_ratio=2.0, full_output=True)
                cd, id_ = fb.derivative(f, z0, n=n, num_extrap=ne_, step_ratio=2.0, full_output=True)
                fact = np.array([float(_m.factorial(k_)) for k_ in range(len(ct))])
                w_ = np.asarray(ct) * fact
                if not ((np.abs(np.asarray(cd) - w_) <= 1e-12 * np.abs(w_) + 1e-300).all() and int(id_.iterations) == int(it_.iterations)):
                    fun_hist.append(dict(caps=dict(num_extrap=ne_), iterations=int(id_.iterations), failed=bool(id_.failed), used_max_iter=None, same=False))
    except Exception as ex:
        return dict(error='%s: %s' % (type(ex).__name__, str(ex)[:160]))
    return dict(calls=out, fun_hist=fun_hist)


def validate(traces):
    d = vlib.run_dir('Trace_Taylor-data')
    path = os.path.join(d, 'traces.json')
    json.dump(dict(traces=traces), open(path, 'w'))
    cfg = "CONSTANTS\n  MaxIters = {30}\n  NumExtraps = {3}\nSPECIFICATION TraceSpec\nCHECK_DEADLOCK FALSE\nINVARIANT FailedIffCap\nINVARIANT ConvergedMeans\nINVARIANT EnoughCircles\nCONSTRAINT Emit\n"
    res = vlib.tlc('Trace_Taylor', cfg_text=cfg, env=dict(TRACE_FILE=path), tag='Trace_Taylor', timeout=1800)
    shutil.rmtree(d, ignore_errors=True)
    vlib.require_ok(res)
    return res, {r['tid'] for r in res.records}


def extrap_stage(rep, tier, fb):
    """spec/TaylorExtrap.tla: the two-stage extrapolation over successive radii removes the r^m and r^2m aliasing terms
    exactly; every TLC case is replayed into fornberg._extrapolate (and the first stage into fornberg.richardson)."""
    cfg = ("CONSTANTS\n  EmitOn = TRUE\n  SmallBox = %s\nINIT Init\nNEXT Next\nCHECK_DEADLOCK FALSE\nINVARIANT FirstStage\nINVARIANT SecondStage\nINVARIANT Count\nCONSTRAINT Emit\n"
           % ('TRUE' if tier == 'quick' else 'FALSE'))
    res = vlib.tlc('TaylorExtrap', cfg_text=cfg, timeout=3000)
    vlib.require_ok(res)
    n = 0
    worst = 0.0
    for r in res.records:
        if not r['valid']:
            continue
        rs = [vlib.fl(q) for q in r['rs']]
        bs = [vlib.fl(q) for q in r['bs']]
        A, m = vlib.fl(r['A']), r['m']
        try:
            out = fb._extrapolate([np.array([b, 2 * b]) for b in bs], rs, m)         # two coefficients at once, as Taylor does
        except Exception as ex:
            rep.violation('extrapolate-raises', dict(case=r), '_extrapolate raised %r on bs=%s rs=%s m=%d' % (ex, bs, rs, m))
            continue
        n += 1
        if len(out) != len(rs) - 2:
            rep.violation('extrapolate-count', dict(case=r, got=len(out)), '_extrapolate: %d radii give %d values, specification %d' % (len(rs), len(out), len(rs) - 2))
            continue
        # conditioning: the corrections divide by 1 - (r_a/r_b)^m
        amp = 1.0
        for k in range(len(rs) - 1):
            amp = max(amp, 1.0 / abs(1.0 - (rs[k] / rs[k + 1]) ** m))
        for k in range(len(rs) - 2):
            amp = max(amp, 1.0 / abs(1.0 - (rs[k] / rs[k + 2]) ** m))
        mag = max(abs(b) for b in bs) + abs(A)
        tol = 64 * EPS * mag * amp * amp
        err = max(float(np.abs(np.asarray(o) - np.array([A, 2 * A])).max()) for o in out)
        worst = max(worst, err / tol)
        if not err <= tol:
            rep.violation('extrapolate-value', dict(A=A, B=vlib.fl(r['B']), C=vlib.fl(r['C']), m=m, rs=rs, got=[np.asarray(o).tolist() for o in out]),
                          '_extrapolate(b = A + B r^m + C r^2m, A=%g, m=%d, radii %s) = %s: the aliasing terms are not removed' % (A, m, rs, [float(np.asarray(o)[0]) for o in out]))
    return res, n, worst


KNOWN_ERR = {f['key']: f.get('recorded_relative_error') for f in vlib.load_findings() if f.get('property') == 'C17' and f.get('status') == 'known'}


def run(tier, rep):
    seed = 20261003        # fixed (VERIF_SEED is ignored here): the known findings of this property are listed per failing input of this case set
    ctl_cfg = "CONSTANTS\n  MaxIters = {3, 4, 5, 8, 30}\n  NumExtraps = {0, 1, 2, 3, 5}\nSPECIFICATION Spec\nCHECK_DEADLOCK FALSE\nINVARIANT FailedIffCap\nINVARIANT ConvergedMeans\nINVARIANT EnoughCircles\nINVARIANT CirclesAfterRange\nINVARIANT DegenerateOnlyLate\nINVARIANT TypeOK\n"
    ctl = vlib.tlc('TaylorFFT', cfg_text=ctl_cfg, timeout=1800)
    if ctl.violated:
        raise vlib.MachineryError('TaylorFFT violates %s\n%s' % (ctl.violated, ctl.out[-1200:]))
    vlib.require_ok(ctl)
    live = vlib.tlc('TaylorFFT', cfg_text="CONSTANTS\n  MaxIters = {3, 8, 30}\n  NumExtraps = {0, 3}\nSPECIFICATION FairSpec\nCHECK_DEADLOCK FALSE\nPROPERTY Termination\n", tag='TaylorFFT_live', timeout=1800)
    if live.violated or live.error:
        raise vlib.MachineryError('TaylorFFT liveness failed: %s %s' % (live.violated, (live.error or '')[:600]))
    lem = vlib.tlc('MC_TaylorFams', cfg='MC_TaylorFams.cfg')
    vlib.require_ok(lem)
    from numdifftools import fornberg as fb
    xres, nx, xworst = extrap_stage(rep, tier, fb)
    doc_mismatch = []
    table = lambda n: 8 if n <= 6 else 16 if n <= 12 else 32 if n <= 25 else 64 if n <= 51 else 128 if n <= 103 else 256
    for n in range(1, 193):
        try:
            got = int(fb._num_taylor_coefficients(n))
        except Exception as ex:
            rep.violation('numcoef-raises', dict(n=n), '_num_taylor_coefficients(%d) raised %r' % (n, ex))
            continue
        if got < n + 1 or got & (got - 1):
            rep.violation('numcoef', dict(n=n, got=got), '_num_taylor_coefficients(%d) = %d: fewer than n+1 coefficients (or not a power of two)' % (n, got))
        if got != table(n):
            doc_mismatch.append(n)
    cases = make_cases(tier, seed)
    # nearly real expansion points (imaginary part 1e-10 / 3e-11: far above the rounding level of the coefficients, far below anything
    # a clean-up of "rounding noise" may assume): the genuine imaginary parts of the coefficients must survive.  Default configuration,
    # n = 2, 3 (below the order-m/2 coefficient); appended AFTER the seeded case set so that the listed inputs of the known findings stay the same
    cases = cases + [(fi, z0, n, None, None, None, True) for fi in range(len(fams())) for z0 in (0.5 + 1e-10j, -0.25 + 3e-11j, 0.75 - 1e-10j) for n in (2, 3)]
    outs = vlib.pool_map(run_case, cases, chunksize=2)
    F = fams()
    traces, owners = [], []
    K, C = ENV['taylor']['K'], ENV['taylor']['floor']
    worst = 0.0
    nval = 0
    surv = []
    for case, o in zip(cases, outs):
        fi, z0, n, r, sr, ne, default = case
        name = '%s at z0=%r n=%d %s' % (F[fi][0], z0, n, 'default' if default else 'r=%g ratio=%g num_extrap=%d' % (r, sr, ne))
        if o.get('machinery'):
            raise vlib.MachineryError(o['machinery'])
        if o.get('error'):
            rep.violation('raises', dict(case=name), 'taylor/derivative raised %s for %s' % (o['error'], name))
            continue
        traces.append(o['trace'])
        owners.append(name)
        if o['m'] < n + 1:
            rep.violation('too-few-coefficients', dict(case=name, got=o['m']), '%s: %d coefficients returned, at least %d required' % (name, o['m'], n + 1))
        if not o['der_ok']:
            rep.violation('derivative-scaling', dict(case=name), '%s: derivative() is not taylor() times k! (values or error estimates)' % name)
        # (whether the search converged is re-derived from the per-iteration events by Trace_Taylor: ConvergedMeans / FailedIffCap)
        if o['failed'] != (not o['trace']['hd']['converged']) or (o['failed'] and o['trace']['hd']['circles'] != o['trace']['hd']['max_iter']):
            rep.violation('failed-flag', dict(case=name), '%s: failed=%s but the search %s' % (name, o['failed'], 'converged' if o['trace']['hd']['converged'] else 'hit the cap'))
        poly = F[fi][0].startswith('z^3')
        if default and n <= 20 and not poly and o['rad'] >= 1.5 and (o['degenerate'] or o['failed']):
            rep.violation('degenerate-default', dict(case=name, degenerate=o['degenerate'], failed=o['failed']),
                          '%s: default radius, n <= 20, analytic within 1.5 - but reported degenerate=%s failed=%s' % (name, o['degenerate'], o['failed']))
        if o['degenerate'] or o['failed'] or not np.isfinite(o['fmax']):
            continue
        for k in range(min(o['m'], n + 1)):
            floor = C * EPS * o['fmax'] / o['R'] ** k
            nval += 1
            ratio = (o['err'][k] - floor) / max(o['est'][k], 1e-300)
            if o['err'][k] > 100 * o['est'][k]:
                surv.append((o['err'][k] / floor, o['err'][k], o['est'][k], floor, k, name))
            if default and n <= 20 and not o['est'][k] <= ENV['taylor']['est_ceiling'] * (o['exact'][k] + floor):
                # an estimate may be pessimistic, not arbitrary: with the default configuration it stays within a fixed multiple of
                # the coefficient's own size plus the FFT floor (worst observed 0.11)
                rep.violation('estimate-inflated', dict(case=name, k=k, error_estimate=o['est'][k], exact_abs=o['exact'][k], floor=floor),
                              '%s: error_estimate of coefficient %d is %.3g although |coefficient| = %.3g and the FFT floor is %.3g' % (name, k, o['est'][k], o['exact'][k], floor))
                break
            if not o['err'][k] <= K * o['est'][k] + floor:
                key = 'coefficient:%s' % F[fi][0]
                if n > 25:
                    key = 'coefficient-high-n'
                elif o['R'] >= o['rad']:
                    key = 'coefficient-radius-exceeded'
                elif 2 * k == o['m']:
                    key = 'coefficient-nyquist'
                if key.startswith('coefficient-'):
                    key = key + ':' + name         # known findings are listed per failing input (tools/gen_known_c17.py), not per region
                    rec_ = KNOWN_ERR.get(key)
                    if rec_ is not None and o['err'][k] / max(o['exact'][k], floor) > 10 * rec_:
                        key = key + ':worse'       # the listed input fails by more than ten times its recorded relative error: reported
                rep.violation(key, dict(case=name, k=k, error=o['err'][k], error_estimate=o['est'][k], floor=floor, exact_abs=o['exact'][k], R=o['R']),
                              '%s: coefficient %d is off by %.3g, error_estimate %.3g, FFT floor %.3g (|exact| = %.3g)' % (name, k, o['err'][k], o['est'][k], floor, o['exact'][k]))
                break
    pitems = [(z0, r, n) for z0 in (0.0, 0.5, 1.0, -0.25) for r in (1.0, 0.5) for n in (4, 8, 12)]
    for it_, o in zip(pitems, vlib.pool_map(run_pole_on_circle, pitems, chunksize=2)):
        nm = '1/(b-z) with the pole b = z0 + r on the first circle, z0=%r r=%r n=%d' % it_
        if 'error' in o:
            rep.violation('pole-on-circle:raises', dict(case=nm), '%s raised %s' % (nm, o['error']))
        elif o['bad']:
            rep.violation('pole-on-circle', dict(case=nm, **o), '%s: coefficient %d is %r, exact %r, error_estimate %.3g (degenerate, failed) = %s' % (nm, o['k'], o['got'], o['want'], o['est'], o['status']))
    # one object reused over several expansion points
    rndr = random.Random(seed + 5)
    Fl = fams()
    ritems = []
    for k in range(12 if tier == 'quick' else 80):
        fi = rndr.randrange(len(Fl))
        pts = [rndr.choice([0.0, 0.5, -1.0, 1j, 0.3 - 0.7j, 1 + 1j, 0.25]) for _ in range(5)]
        ritems.append((fi, rndr.choice([4, 6, 12, 20]), pts, rndr.choice([{}, {}, dict(r=1e-3, step_ratio=2.0, num_extrap=2)])))
    for it_, o in zip(ritems, vlib.pool_map(run_reuse, ritems, chunksize=1)):
        nm = 'Taylor object reused: %s n=%d %s' % (Fl[it_[0]][0], it_[1], it_[3] or 'default')
        if 'error' in o:
            rep.violation('reuse-raises', dict(case=nm), '%s raised %s' % (nm, o['error']))
            continue
        for j, c in enumerate(o['calls']):
            if not c['same']:
                rep.violation('reuse', dict(case=nm, call=j + 1, z0=c['z0'], status=c['status'], fresh=c['fresh']),
                              '%s: call %d at z0=%s returns (degenerate, failed, iterations) = %s, a new object %s (coefficients or estimates differ)' % (nm, j + 1, c['z0'], c['status'], c['fresh']))
                break
            if c['trace']:
                traces.append(c['trace'])
                owners.append('%s, call %d' % (nm, j + 1))
        for j, h_ in enumerate(o.get('fun_hist', [])):
            cap = h_['caps'].get('max_iter', 30)
            if not (h_['same'] and h_['iterations'] <= cap and h_['used_max_iter'] in (None, cap) and (not h_['failed'] or h_['iterations'] == cap)):
                rep.violation('reuse:function', dict(case=nm, call=j + 1, **h_),
                              '%s: taylor(f, z0, n, %s) as call %d of a sequence on the same function object: %d circles, failed=%s, cap used %s; a new Taylor object with these options behaves differently or the cap %d was not respected' % (
                                  nm, h_['caps'] or 'default caps', j + 1, h_['iterations'], h_['failed'], h_['used_max_iter'], cap))
                break
    tres, accepted = validate(traces)
    for j, nm in enumerate(owners, 1):
        if j not in accepted:
            rep.violation('controller-trace', dict(case=nm, trace=traces[j - 1]), '%s: the recorded radius search is not a behaviour of TaylorFFT (iteration bookkeeping / stopping rule / failed flag differ from the design)' % nm)
    # negative control
    if traces:
        bad = json.loads(json.dumps(traces[0]))
        bad['hd']['circles'] += 1
        _, acc = validate([bad])
        if acc:
            raise vlib.MachineryError('Trace_Taylor accepted a corrupted trace')
    if os.environ.get('VERIF_SURVEY'):
        surv.sort(reverse=True)
        for t in surv[:30]:
            print('SURVEY ratio %.3g err %.3g est %.3g floor %.3g k=%d %s' % t)
    sres, sstats = [], {}
    if tier != 'quick':
        import suite_traces
        sres, sstats = suite_traces.check('taylor', rep)     # the repository's own tests, hooks on, against Trace_Taylor
    states, trans, per = vlib.merge_tlc([ctl, live, lem, tres, xres] + sres)
    cov = dict(**sstats, extrapolation_cases=nx, extrapolation_worst_ratio=xworst, states=states, transitions=trans, traces_validated_against_impl=len(traces), coefficient_checks=nval,
               samples=[dict(case=owners[0], trace=traces[0])], evaluations=len(traces) + nval,
               distinct_nontrivial=len({nm for nm in owners if 'default' not in nm}),
               rule='11 function families x 6 expansion points of the unit square x (default configuration with n <= 20 + seeded (n, r, step_ratio, num_extrap)); non-trivial = non-default configuration',
               K=K, floor_constant=C, docstring_table_differs_at=doc_mismatch, tlc=per)
    assum = ['closed forms of the coefficients are TLC-checked against the jet recurrences at rational parameters for k <= 10 and used at complex points / k <= 100 (extrapolation)',
             'coefficient bound K*error_estimate + C*eps*max|f|/R^k with K, C from envelopes.json; max|f| sampled at 64 points of the final circle']
    return cov, assum
