"""C05 - the user function is only evaluated where the method promises (trace validation).

Real executions of Derivative / Gradient / Jacobian / Hessdiag / Hessian are recorded by wrapping
the user function; every argument is projected (evalproj.project) and the traces are validated by
TLC against spec/Trace_Eval.tla (stencil admissibility from Rules.tla + the property's invariants)."""
import json, os, random, itertools, re
import numpy as np
import vlib
from evalproj import Recorder, project

A0, K0 = 0.25, 1.5


def f_elem(t, a=0.0, k=0.0):
    return ((t * 0.5 + a) * t + k) * t + 1.0


def f_scalar_of(n):
    cs = [0.5 + 0.25 * j for j in range(n)]

    def f(z, a=0.0, k=0.0):
        acc = z[0] * z[n - 1] * 0.125 + a
        for j in range(n):
            acc = acc + z[j] * z[j] * cs[j] + z[j] * (k + 0.5 * j)
        return acc
    return f


def f_vector_of(n, m):
    def f(z, a=0.0, k=0.0):
        out = []
        for r in range(m):
            acc = z[r % n] * (1.0 + r) + a
            for j in range(n):
                acc = acc + z[j] * z[(j + r) % n] * (0.25 + 0.125 * j)
            out.append(acc + k)
        return np.array(out)
    return f


def step_variants(rnd, method, quick):
    """(label, kwargs for the class constructor)"""
    MinStepGenerator = lambda **kw: ('Min', kw)
    MaxStepGenerator = lambda **kw: ('Max', kw)
    out = [('default', {})]
    out.append(('scalar', dict(step=rnd.choice([0.01, 0.125, 1e-3]))))
    out.append(('min', dict(step=MinStepGenerator(base_step=rnd.choice([1e-3, 0.02]), step_ratio=rnd.choice([2.0, 3.0, 1.7]),
                                                   num_steps=rnd.choice([None, 12, 25]), offset=rnd.choice([0, 1, -1])))))
    out.append(('max', dict(step=MaxStepGenerator(base_step=rnd.choice([0.5, 2.0, 0.1]), step_ratio=rnd.choice([None, 2.0, 1.5]),
                                                   num_steps=rnd.choice([15, 9, 21]), offset=rnd.choice([0, 1, -2])))))
    return out if not quick else out


def run_case(case):
    vlib.use_repo()
    import numdifftools as nd
    cls, m, n, o, dim, label, skw, xv, use_args, full, pre = case
    rnd_args = (A0,) if use_args else ()
    rnd_kwds = dict(k=K0) if use_args else {}
    if cls == 'Derivative':
        rec = Recorder(f_elem)
        kw = dict(method=m, n=n, order=o)
    elif cls in ('Gradient', 'Hessdiag', 'Hessian'):
        rec = Recorder(f_scalar_of(dim))
        kw = dict(method=m)
        if cls != 'Hessian':
            kw['order'] = o
        if cls == 'Gradient':
            kw['n'] = n
    else:
        rec = Recorder(f_vector_of(dim, 2 + dim % 3))
        kw = dict(method=m, order=o, n=n)
    kw.update(skw)
    if isinstance(kw.get('step'), tuple):
        from numdifftools.step_generators import MinStepGenerator, MaxStepGenerator
        kw['step'] = dict(Min=MinStepGenerator, Max=MaxStepGenerator)[kw['step'][0]](**kw['step'][1])
    kw['full_output'] = full
    try:
        if pre and pre[0] == 'setters':
            # construct with another configuration, then move to (m, n, o) through the public setters
            kw0 = dict(kw)
            kw0['method'] = pre[1]
            if cls == 'Derivative':
                kw0['n'] = pre[2]
            if cls != 'Hessian':
                kw0['order'] = pre[3]
            d = getattr(nd, cls)(rec, **kw0)
            if cls != 'Hessian':
                d.order = o
            d.method = m
            if cls == 'Derivative':
                d.n = n
        else:
            d = getattr(nd, cls)(rec, **kw)
        x = np.asarray(xv, dtype=float)
        if pre and pre[0] == 'raise':
            # an earlier call (other object, same shapes) whose function raised part-way
            cnt = [0]

            def bad(z, *a, **k):
                cnt[0] += 1
                if cnt[0] >= pre[1]:
                    raise ArithmeticError('user function failed')
                return rec.f(z, *a, **k)
            try:
                getattr(nd, cls)(bad, **kw)(x + 1.0)
            except ArithmeticError:
                pass
        if pre and pre[0] == 'call':
            d(x * 0.5 - 1.25, *rnd_args, **rnd_kwds)
            del rec.calls[:]
        if pre and pre[0] == 'again':
            d(x, *rnd_args, **rnd_kwds)           # the SAME object at the SAME point: the second call is the recorded one
            del rec.calls[:]
        if cls == 'Derivative':
            xi = x
        elif cls == 'Gradient':
            xi = np.atleast_1d(x).ravel()
        else:
            xi = np.atleast_1d(x)
        raised = None
        try:
            d(x, *rnd_args, **rnd_kwds)
        except Exception as ex:
            # the call failed: whatever it evaluated before failing must still have been admissible
            raised = '%s: %r' % (type(ex).__name__, ex)
            if not rec.calls:
                return dict(error=raised, case=case_key(case))
        steps = list(d.step(xi, d.method, d.n, d.method_order))
    except Exception as ex:
        return dict(error='%s: %r' % (type(ex).__name__, ex), case=case_key(case))
    evs = []
    for arg, a, k in rec.calls:
        tok = (a == rnd_args and k == rnd_kwds)
        evs.append(project(arg, xi, steps, cls == 'Derivative', tok))
    cfg = dict(cls=cls, m=m, n=int(d.n), o=int(d.order) if cls != 'Hessian' else 2, dim=1 if cls == 'Derivative' else int(xi.size),
               N=len(steps), label=label, key=case_key(case), partial=1 if raised else 0)
    return dict(cfg=cfg, ev=evs, raised=raised)


def case_key(case):
    cls, m, n, o, dim, label, skw, xv, use_args, full, pre = case
    return '%s/%s/n=%d/o=%d/dim=%d/%s%s' % (cls, m, n, o, dim, label, ('/' + pre[0]) if pre else '')


def make_cases(tier, seed):
    rnd = random.Random(seed)
    quick = tier == 'quick'
    cases = []
    methods5 = ['central', 'forward', 'backward', 'complex', 'multicomplex']
    xs_scalar = [0.75, -3.5, [0.5, -2.0, 40.0]] if not quick else [0.75, [0.5, -40.0]]
    orders = [1, 2, 3, 4, 6, 8] if not quick else [1, 2, 3, 4, 6]
    for m in methods5:
        for n in range(1, 7):
            if m == 'multicomplex' and n > 2:
                continue
            for o in orders:
                for label, skw in step_variants(rnd, m, quick):
                    xv = rnd.choice(xs_scalar)
                    cases.append(('Derivative', m, n, o, 1, label, skw, xv, rnd.random() < 0.5, rnd.random() < 0.5, None))
    dims = [1, 2, 3, 5] if quick else [1, 2, 3, 4, 5]
    for cls in ('Gradient', 'Jacobian'):
        for m in methods5:
            for o in ([2, 3, 4] if quick else [1, 2, 3, 4, 6]):
                for dim in dims:
                    for label, skw in step_variants(rnd, m, quick)[:(2 if quick else 4)]:
                        xv = [rnd.choice([-3.0, 0.5, 2.25, 17.0, 0.0]) for _ in range(dim)]
                        cases.append((cls, m, 1, o, dim, label, skw, xv, rnd.random() < 0.5, rnd.random() < 0.5, None))
                    # pure n-th partial derivatives (n > 1): one random higher n per (class, method, order, dimension)
                    for nn in ([rnd.randint(2, 6)] if quick else [2, 3, 4, 5, 6]):
                        label, skw = step_variants(rnd, m, quick)[0]
                        xv = [rnd.choice([-3.0, 0.5, 2.25, 17.0, 0.0]) for _ in range(dim)]
                        cases.append((cls, m, nn, o, dim, label, skw, xv, rnd.random() < 0.5, rnd.random() < 0.5, None))
    for m in methods5 + ['central2']:
        for o in [2, 4, 6, 8]:
            for dim in dims:
                for label, skw in step_variants(rnd, m, quick)[:(2 if quick else 4)]:
                    xv = [rnd.choice([-3.0, 0.5, 2.25, 17.0, 0.0]) for _ in range(dim)]
                    cases.append(('Hessdiag', m, 2, o, dim, label, skw, xv, rnd.random() < 0.5, rnd.random() < 0.5, None))
    for m in methods5 + ['central2']:
        for dim in dims:
            for label, skw in step_variants(rnd, m, quick)[:(2 if quick else 4)]:
                xv = [rnd.choice([-3.0, 0.5, 2.25, 17.0, 0.0]) for _ in range(dim)]
                cases.append(('Hessian', m, 2, 2, dim, label, skw, xv, rnd.random() < 0.5, rnd.random() < 0.5, None))
    # histories: the same configurations reached through setters, after a failed call, or on a reused object
    base = list(cases)
    rnd.shuffle(base)
    real = ['central', 'forward', 'backward']
    k = 0
    for c in base:
        cls, m, n, o, dim, label, skw, xv, ua, full, _ = c
        if k >= (150 if quick else 600):
            break
        if m in real or (m == 'complex' and label != 'default'):
            pool = [q for q in (real + (['complex'] if label != 'default' else [])) if q != m]
            m0 = rnd.choice(pool)
            cases.append((cls, m, n, o, dim, label, skw, xv, ua, full, ('setters', m0, rnd.choice([1, 2, 3]), rnd.choice([2, 4, 1]))))
            k += 1
        if cls != 'Derivative':
            cases.append((cls, m, n, o, dim, label, skw, xv, ua, full, ('raise', rnd.choice([2, 3, 4, 6]))))
        cases.append((cls, m, n, o, dim, label, skw, xv, ua, full, ('call',)))
        if k % 2 == 0 or cls in ('Hessian', 'Hessdiag'):
            cases.append((cls, m, n, o, dim, label, skw, xv, ua, full, ('again',)))
    for c in base:
        if c[0] == 'Hessian' and c[10] is None:
            cases.append(c[:10] + (('again',),))          # every Hessian configuration also as the second call at the same point
    return cases


CFG = """SPECIFICATION TraceSpec
CHECK_DEADLOCK FALSE
INVARIANT InvForwardNeverBelow
INVARIANT InvBackwardNeverAbove
INVARIANT InvImagOnly
INVARIANT InvLocality
INVARIANT InvCentralSymmetric
CONSTRAINT Emit
"""


def validate(traces, tag='Trace_Eval'):
    """returns (TLCResult, accepted tids (1-based), {tid: violated invariant})"""
    d = vlib.run_dir(tag + '-data')
    path = os.path.join(d, 'traces.json')
    with open(path, 'w') as f:
        json.dump(dict(traces=[dict(cfg=t['cfg'], ev=t['ev']) for t in traces]), f)
    res = vlib.tlc('Trace_Eval', cfg_text=CFG, env=dict(TRACE_FILE=path), tag=tag, timeout=1800, cont=True)
    import shutil
    shutil.rmtree(d, ignore_errors=True)
    if res.error and 'is violated' not in res.out:
        raise vlib.MachineryError('Trace_Eval failed: %s' % res.error[:1500])
    accepted = {r['tid']: r for r in res.records}
    bad = {}
    for mm in re.finditer(r'Invariant (\w+) is violated\.(.*?)(?=Error: Invariant|\Z)', res.out, re.S):
        tm = re.findall(r'/\\ t = (\d+)', mm.group(2))
        if tm:
            bad.setdefault(int(tm[-1]), mm.group(1))
    return res, accepted, bad


def longest_prefix(trace):
    """re-validate one rejected trace prefix by prefix (binary search) to name the first rejected event"""
    lo, hi = 0, len(trace['ev'])
    while lo < hi:
        mid = (lo + hi + 1) // 2
        t2 = dict(cfg=trace['cfg'], ev=trace['ev'][:mid])
        # central symmetry is an end-of-trace clause: do not apply it to prefixes
        _, acc, bad = validate([t2], tag='Trace_Eval_prefix')
        if 1 in acc and (1 not in bad or bad[1] == 'InvCentralSymmetric'):
            lo = mid
        else:
            hi = mid - 1
    return lo


def run(tier, rep):
    seed = vlib.seed_from_env()
    cases = make_cases(tier, seed)
    out = vlib.pool_map(run_case, cases, chunksize=8)
    traces = []
    for c, r in zip(cases, out):
        err = r.get('error') or r.get('raised')
        if err:
            benign = (('Multicomplex method only support' in err and c[1] == 'multicomplex' and c[2] > 2)
                      or ('num_steps' in err and 'must  be larger' in err and c[5] != 'default')      # a user generator with too few steps for this rule
                      # Gradient/Jacobian have no rule for complex n = 3, 4 and multicomplex n = 2 (AttributeError before any evaluation)
                      or ("JacobianDifferenceFunctions' object has no attribute" in err and c[0] in ('Gradient', 'Jacobian')
                          and ((c[1] == 'complex' and c[2] in (3, 4)) or (c[1] == 'multicomplex' and c[2] == 2)))
                      or (c[0] in ('Gradient', 'Jacobian') and c[2] > 1 and 'fun did not return data of correct size' in err))
            if not benign:
                rep.violation('raises:' + (r.get('case') or r['cfg']['key']), dict(case=r.get('case') or r['cfg']['key']), 'call raised %s' % err)
            if 'error' in r:
                continue
        traces.append(r)
    if not traces:
        raise vlib.MachineryError('no traces recorded')
    # negative controls: corrupt one recorded field in copies of real traces; TLC must reject each
    import copy
    controls = []

    def corrupt(pred, mut, name):
        for t in traces:
            if pred(t):
                t2 = copy.deepcopy(t)
                if mut(t2):
                    t2['cfg']['key'] = 'CONTROL:' + name
                    controls.append(t2)
                    return
    def flip_unit(t2):
        for e in t2['ev']:
            if e['u'] == [1]:
                e['u'] = [2]
                e['alts'] = [[e['i'], [2], e['ji']]]
                return True
    def set_re(t2):
        for e in t2['ev']:
            if e['c']:
                e['re'] = 0
                return True
    def drop_tok(t2):
        t2['ev'][-1]['tok'] = 0
        return True
    def two_coords(t2):
        for e in t2['ev']:
            if e['c'] == [1]:
                e['c'], e['u'] = [1, 2], e['u'] * 2
                e['alts'] = [[a[0], a[1] * 2, a[2]] for a in e['alts']]
                return True
    def drop_pair(t2):
        for j, e in enumerate(t2['ev']):
            if e['u'] == [2]:
                del t2['ev'][j]
                return True
    corrupt(lambda t: t['cfg']['m'] == 'forward' and t['cfg']['cls'] == 'Derivative', flip_unit, 'forward evaluates below x')
    corrupt(lambda t: t['cfg']['m'] == 'multicomplex', set_re, 'multicomplex changes the real part')
    corrupt(lambda t: True, drop_tok, 'extra arguments not forwarded')
    corrupt(lambda t: t['cfg']['cls'] == 'Gradient' and t['cfg']['dim'] >= 2, two_coords, 'two coordinates at once')
    corrupt(lambda t: t['cfg']['m'] == 'central' and t['cfg']['cls'] == 'Derivative' and t['cfg']['n'] == 1, drop_pair, 'central without its mirror point')
    nreal = len(traces)
    res, accepted, bad = validate(traces + controls)
    for j, c in enumerate(controls, nreal + 1):
        if j in accepted and j not in bad:
            raise vlib.MachineryError('negative control accepted by the trace specification: %s' % c['cfg']['key'])
    if len(controls) < 5:
        raise vlib.MachineryError('could not build all negative controls')
    nev = sum(len(t['ev']) for t in traces)
    for i, t in enumerate(traces, 1):
        if i in bad:
            rep.violation('%s:%s' % (bad[i], t['cfg']['key']), dict(cfg=t['cfg'], events=t['ev'][:40]),
                          '%s violated by the evaluations of %s' % (bad[i], t['cfg']['key']))
        elif i not in accepted:
            k = longest_prefix(t) if len(rep.violations) < 5 else -1
            nxt = t['ev'][k] if 0 <= k < len(t['ev']) else None
            rep.violation('inadmissible:%s' % t['cfg']['key'], dict(cfg=t['cfg'], matched_prefix=k, next_event=nxt, events=t['ev'][:40]),
                          '%s: evaluation #%d %s is not a term of the stencil the specification assigns to this configuration (or extra args were not forwarded)' % (t['cfg']['key'], k + 1, nxt))
        elif accepted[i]['n'] != len(t['ev']):
            raise vlib.MachineryError('trace length mismatch')
    sres, sstats = [], {}
    if tier != 'quick':
        import suite_traces
        sres, sstats = suite_traces.check_evals(rep)     # every call the repository's own tests make, recorded from outside
    states, trans, per = vlib.merge_tlc([res] + sres)
    cls_count = {}
    for t in traces:
        cls_count[t['cfg']['cls']] = cls_count.get(t['cfg']['cls'], 0) + 1
    cov = dict(states=states, transitions=trans, traces_validated_against_impl=len(traces), events=nev,
               samples=[dict(cfg=traces[0]['cfg'], ev=traces[0]['ev'][:6]), dict(cfg=traces[-1]['cfg'], ev=traces[-1]['ev'][:6])],
               evaluations=len(traces), distinct_nontrivial=len({t['cfg']['key'] for t in traces if len(t['ev']) > 2}),
               rule='one trace per (class, method, n, order, dimension, step option, x); non-trivial = more than two evaluations',
               per_class=cls_count, tlc=per, negative_controls_rejected=len(controls), **sstats)
    assum = ['projection of arguments onto (coordinates, unit, step index) in harness/evalproj.py with 1e-6 relative matching',
             'generated steps are re-obtained from the object\'s own generator d.step(x, method, n, method_order)',
             'test functions are polynomials (total on C and on bicomplex numbers)']
    return cov, assum
