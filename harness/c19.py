"""C19 - nd_scipy wrappers return the Jacobian / gradient and respect bounds.

spec/NdScipy.tla enumerates (class, n, m, method, placement of x in the box, relative step) with the
method map and the demanded result shape; the functions and their exact Jacobians come from
MC_Multi (spec/MultiJets.tla).  Replay: every evaluation of f is recorded - with bounds it must lie
in the box, extra args/kwds must arrive unchanged -; the result has the demanded shape and equals
the exact Jacobian (affine: to rounding with 'complex', to finite-difference accuracy otherwise);
one object is called repeatedly at the same x with different extra arguments."""
import random
import numpy as np
import vlib, multi

EPS = np.finfo(float).eps
CASES = None
MREC = None


def run_case(ci):
    vlib.use_repo()
    import numdifftools.nd_scipy as nds
    c = CASES[ci]
    n, m = c['n'], c['m']
    rec = MREC[(n, m, c['kind'])]
    x0 = np.array(multi.X0[:n])
    x0.flags.writeable = False                  # the caller's x is never written to
    comps = [multi.comp_fun(ds, list(x0)) for ds in rec['comps']]
    evals = []

    def f(x, s=1.0, t=0.0):
        evals.append((np.array(x, copy=True), s, t))
        vals = [cf(x) for cf in comps[:m]]
        out = np.array(vals) * s + t
        return out if c['cls'] == 'Jacobian' else out[0]
    rel = {0: None, 1: 1e-4, 2: 1e-2}[c['rel']]
    kw = dict(method=c['method'], step=rel)
    lb = ub = None
    if c['place'] != 'nobounds':
        span = np.maximum(np.abs(x0), 1.0)
        lb, ub = x0 - 0.5 * span, x0 + 0.7 * span
        base_place = c['place'][:-5] if c['place'].endswith('-open') else c['place']
        if base_place == 'near-face':
            lb = x0 - 1e-7 * span          # strictly inside, but closer to the face than any step
            ub[::2] = (x0 + 2e-7 * span)[::2]
        elif base_place == 'on-face':
            lb[0] = x0[0]
        elif base_place == 'corner':
            lb = x0.copy() if n % 2 else lb
            if n % 2 == 0:
                ub = x0.copy()
        if c['place'].endswith('-open'):
            # a half-open box (NdScipy.Places): the last coordinate is unbounded on both sides, the finite faces of the others stay
            lb = np.array(lb, dtype=float)
            ub = np.array(ub, dtype=float)
            lb[-1] = -np.inf
            if n > 1:
                ub[-1] = np.inf
        kw['bounds'] = (lb, ub)
    obj = getattr(nds, c['cls'])(f, **kw)
    out = {}
    try:
        xin = x0 if not (c['cls'] == 'Gradient' and n in (4, 6)) else x0.reshape(2, n // 2)
        if c['cls'] == 'Gradient' and n in (4, 6):
            obj2 = nds.Gradient(lambda x, s=1.0, t=0.0: f(np.ravel(x), s, t), **kw)
            r1 = obj2(xin, 2.0, t=0.5)
        else:
            r1 = obj(xin, 2.0, t=0.5)
        layouts = []
        if c['cls'] == 'Gradient' and n in (4, 6):
            # the same logical 2-d x in other memory layouts: coordinates are logical (row-major), not memory order
            for nm, xx in (('Fortran order', np.asfortranarray(xin)), ('transposed view', np.ascontiguousarray(xin.T).T)):
                layouts.append((nm, np.asarray(obj2(xx, 2.0, t=0.5)).tolist()))
        first = list(evals)
        del evals[:]
        r2 = obj(x0, -1.5) if not (c['cls'] == 'Gradient' and n in (4, 6)) else obj2(xin, -1.5)
        second = list(evals)
        # ONE extra positional argument whose value is a tuple (or a list) is one argument, handed to f as it is
        tuple_ok = True
        if not (c['cls'] == 'Gradient' and n in (4, 6)):
            ft = lambda x, pair, t=None: f(x, pair[0], pair[1])
            for pair in ((2.0, 0.5), [2.0, 0.5]):
                r3 = getattr(nds, c['cls'])(ft, **kw)(x0, pair)
                tuple_ok = tuple_ok and np.shape(r3) == np.shape(r1) and bool(np.array_equal(np.asarray(r3), np.asarray(r1), equal_nan=True))
            # a keyword of f that happens to be called `step` is f's keyword
            fstep = lambda x, s=1.0, t=0.0, step=1.0: f(x, s * step, t)
            r4 = getattr(nds, c['cls'])(fstep, **kw)(x0, 1.0, t=0.5, step=2.0)
            tuple_ok = tuple_ok and np.shape(r4) == np.shape(r1) and bool(np.array_equal(np.asarray(r4), np.asarray(r1), equal_nan=True))
            # two overlapping calls of ONE object from two threads with different extra arguments
            import threading
            bar, res_t, seen_t = threading.Barrier(2, timeout=60), {}, {}

            def fthr(x, s=1.0, tag=None):
                if tag is not None and tag not in seen_t:
                    seen_t[tag] = True
                    try:
                        bar.wait()
                    except threading.BrokenBarrierError:
                        pass
                return f(x, s, 0.0)
            shared_obj = getattr(nds, c['cls'])(fthr, **kw)

            def work(tag, s_):
                try:
                    res_t[tag] = np.array(shared_obj(x0, s_, tag), copy=True)
                except Exception as ex_:
                    res_t[tag] = ex_
            ths = [threading.Thread(target=work, args=('a', 2.0)), threading.Thread(target=work, args=('b', -1.5))]
            for th in ths:
                th.start()
            for th in ths:
                th.join(120)
            seq_t = [np.asarray(getattr(nds, c['cls'])(fthr, **kw)(x0, s_)) for s_ in (2.0, -1.5)]
            tuple_ok = tuple_ok and all(isinstance(res_t.get(k_), np.ndarray) and np.array_equal(res_t[k_], q_, equal_nan=True) for k_, q_ in zip(('a', 'b'), seq_t))
        del evals[:]
        evals.extend(second)
    except Exception as ex:
        return dict(error='%s: %s' % (type(ex).__name__, str(ex)[:160]))
    tok1 = all(s == 2.0 and t == 0.5 for _, s, t in first)
    tok2 = all(s == -1.5 and t == 0.0 for _, s, t in evals)
    outside = 0
    worst = None
    if lb is not None:
        for xe, _, _ in first + evals:
            xr = np.real(np.ravel(xe))
            if ((xr < lb) | (xr > ub)).any():
                outside += 1
                worst = xr.tolist()
    # the step that was actually taken, per coordinate (first call): offsets of the evaluation points from x0
    offs = []
    for xe, _, _ in first:
        d_ = np.ravel(xe) - x0
        nzc = np.flatnonzero(d_ != 0)
        if nzc.size == 1:
            offs.append((int(nzc[0]), complex(d_[nzc[0]])))
        elif nzc.size > 1:
            offs.append((-1, 0j))
    complex_real_moved = any(np.iscomplexobj(xe) and not np.array_equal(np.real(np.ravel(xe)), x0) for xe, _, _ in first) if c['method'] == 'complex' else False
    return dict(tuple_ok=tuple_ok, layouts=layouts, r1=np.asarray(r1).tolist(), r2=np.asarray(r2).tolist(), shape=list(np.shape(r1)), tok=tok1 and tok2, outside=outside, worst=worst,
                nevals=len(first), complex_real_moved=complex_real_moved, offs=[(j, [z.real, z.imag]) for j, z in offs])


def run_scaled(case):
    """badly scaled maps with the complex method ("exact to rounding for affine f"): an entry that is tiny next to its row is still an
    entry - judged relative to ITSELF"""
    vlib.use_repo()
    import numdifftools.nd_scipy as nds
    n, m, tiny, kind = case
    x0 = np.array(multi.X0[:n])
    A = np.array([[((3 * i + 2 * j) % 7 - 3.0) or 1.5 for j in range(n)] for i in range(m)]) * np.array([10.0 ** (i % 3) for i in range(m)])[:, None]
    A[:, n // 2] *= tiny
    if kind == 'affine':
        f, want = (lambda x: A.dot(x) + 1.0), A
    else:
        f = lambda x: A.dot(x) + np.exp(x[0] * 0.125) * np.ones(m) + tiny * np.sin(x[-1]) * np.arange(1, m + 1)
        want = A.copy()
        want[:, 0] += 0.125 * np.exp(x0[0] * 0.125)
        want[:, -1] += tiny * np.cos(x0[-1]) * np.arange(1, m + 1)
    try:
        J = np.asarray(nds.Jacobian(f, method='complex')(x0))
        g = np.asarray(nds.Gradient(lambda x: f(x)[0], method='complex')(x0))
    except Exception as ex:
        return 'raised %s: %s' % (type(ex).__name__, str(ex)[:120])
    if np.shape(J) != want.shape:
        return None if m == 1 else 'shape %s, expected %s' % (np.shape(J), want.shape)      # the (n,) result for m = 1 is the known finding shape:m=1
    rel = np.abs(J - want) / np.abs(want)
    if not (rel <= 1e-9).all():
        i, j = np.unravel_index(int(np.argmax(rel)), rel.shape)
        return 'entry [%d, %d] = %r, exact %r (row maximum %.3g): relative error %.3g' % (i, j, J[i, j], want[i, j], np.abs(want[i]).max(), rel[i, j])
    if not (np.abs(np.ravel(g) - want[0]) <= 1e-9 * np.abs(want[0])).all():
        return 'Gradient %s, exact %s' % (np.ravel(g).tolist(), want[0].tolist())
    return None


VIEWS = dict(id=lambda x: x, rev=lambda x: x[::-1], head=lambda x: x[:2], every2=lambda x: x[::2])


def run_view(case):
    """affine maps that return their argument or a view of it: the Jacobian is a 0/1 selection matrix"""
    vlib.use_repo()
    import numdifftools.nd_scipy as nds
    kind, n, method = case
    x0 = np.array(multi.X0[:n])
    I = np.eye(n)
    want = dict(id=I, rev=I[::-1], head=I[:2], every2=I[::2])[kind]
    try:
        J = np.asarray(nds.Jacobian(VIEWS[kind], method=method)(x0))
    except Exception as ex:
        return 'raised %s: %s' % (type(ex).__name__, str(ex)[:120])
    want = want if want.shape[0] > 1 else want.reshape(np.shape(J)) if np.size(J) == want.size else want
    if np.shape(J) != want.shape:
        return None if (want.shape[0] == 1 and np.shape(J) == (n,)) else 'shape %s, expected %s' % (np.shape(J), want.shape)
    if not np.abs(J - want).max() <= 1e-6:
        return 'Jacobian %s, exact %s' % (np.round(J, 8).tolist(), want.tolist())
    return None


def run(tier, rep):
    global CASES, MREC
    seed = vlib.seed_from_env()
    cfg = "CONSTANT EmitOn = TRUE\nINIT Init\nNEXT Next\nCHECK_DEADLOCK FALSE\nINVARIANT InvShape\nCONSTRAINT Emit\n"
    res = vlib.tlc('NdScipy', cfg_text=cfg)
    vlib.require_ok(res)
    mcfg = open(vlib.SPEC + '/MC_Multi.cfg').read().replace('Ns = {1, 2, 3, 5, 8}', 'Ns = {1, 2, 3, 4, 5, 6}').replace('Ms = {1, 2, 3, 6}', 'Ms = {1, 2, 3, 4, 5}').replace('Ks = {0, 1, 2, 4}', 'Ks = {0}')
    mres = vlib.tlc('MC_Multi', cfg_text=mcfg, tag='MC_Multi_c19', timeout=1800)
    vlib.require_ok(mres)
    MREC = {(r['n'], r['m'], r['kind']): r for r in mres.records if r['what'] == 'jac' and r['p'] == 1}
    rnd = random.Random(seed)
    CASES = []
    for r in res.records:
        for kind in ('affine', 'smooth'):
            if tier == 'quick' and rnd.random() > 0.4:
                continue
            c = dict(r)
            c['kind'] = kind
            CASES.append(c)
    outs = vlib.pool_map(run_case, list(range(len(CASES))), chunksize=8)
    n = 0
    for c, o in zip(CASES, outs):
        name = '%s n=%d m=%d %s place=%s rel=%s kind=%s' % (c['cls'], c['n'], c['m'], c['method'], c['place'], {0: None, 1: 1e-4, 2: 1e-2}[c['rel']], c['kind'])
        if 'error' in o:
            rep.violation('raises', dict(case=name), '%s raised %s' % (name, o['error']))
            continue
        n += 1
        if o['shape'] != c['shape']:
            if c['cls'] == 'Jacobian' and c['m'] == 1 and o['shape'] == [c['n']]:
                rep.violation('shape:m=1', dict(case=name, got=o['shape'], want=c['shape']), '%s: result shape %s, demanded %s' % (name, o['shape'], c['shape']))
                o['r1'], o['r2'] = [o['r1']], [o['r2']]
            else:
                rep.violation('shape', dict(case=name, got=o['shape'], want=c['shape']), '%s: result shape %s, demanded %s' % (name, o['shape'], c['shape']))
                continue
        for nm, lv in o['layouts']:
            if np.shape(lv) != np.shape(o['r1']) or not np.allclose(lv, o['r1'], rtol=1e-9, atol=1e-12):
                rep.violation('layout', dict(case=name, layout=nm, got=lv, c_order=o['r1']), '%s: x given as a 2-d array in %s gives %s, in C order %s' % (name, nm, lv, o['r1']))
                break
        if not o['tok']:
            rep.violation('args-not-forwarded', dict(case=name), '%s: extra arguments did not reach f unchanged on every evaluation' % name)
        if not o.get('tuple_ok', True):
            rep.violation('args-tuple', dict(case=name), '%s: extra arguments did not reach f as given: a tuple / list valued argument, a keyword of f named `step`, or the arguments of two overlapping calls of one object from two threads' % name)
        if o['outside']:
            rep.violation('outside-box:%s' % c['place'], dict(case=name, point=o['worst']), '%s: %d evaluation(s) left the box, e.g. %s' % (name, o['outside'], o['worst']))
        if c['place'] == 'nobounds':
            # NdScipy.StepOf (scipy's documented rule): a GIVEN step is relative to |x_j|: h_j = step * |x_j|; the default is
            # h_j = r * max(1, |x_j|) with r = eps^(1/3) (central) or eps^(1/2) (forward, complex);
            # forward: one point per coordinate, central: a symmetric pair, complex: one purely imaginary offset
            given_ = {0: None, 1: 1e-4, 2: 1e-2}[c['rel']]
            rel_ = given_ or (EPS ** (1.0 / 3) if c['method'] == 'central' else EPS ** 0.5)
            x0_ = multi.X0[:c['n']]
            per = {}
            for j, z in o['offs']:
                if complex(z[0], z[1]) not in per.setdefault(j, []):      # the same x may have been evaluated in several layouts
                    per[j].append(complex(z[0], z[1]))
            badstep = None
            if -1 in per:
                badstep = 'an evaluation moves several coordinates at once'
            for j in range(c['n']):
                want_h = rel_ * (abs(x0_[j]) if given_ else max(1.0, abs(x0_[j])))
                zs = per.get(j, [])
                mags = [abs(z) for z in zs]
                if c['method'] == 'central':
                    ok = len(zs) == 2 and abs(zs[0] + zs[1]) <= 1e-9 * want_h and all(abs(m_ - want_h) <= 1e-6 * want_h for m_ in mags)
                elif c['method'] == 'forward':
                    ok = len(zs) == 1 and abs(mags[0] - want_h) <= 1e-6 * want_h and zs[0].imag == 0
                else:
                    ok = len(zs) == 1 and abs(mags[0] - want_h) <= 1e-6 * want_h and zs[0].real == 0
                if not ok and badstep is None:
                    badstep = 'coordinate %d (x = %r): offsets %s, specification %s of size %.6g' % (j, x0_[j], zs, {'central': 'a symmetric pair', 'forward': 'one real offset', 'complex': 'one imaginary offset'}[c['method']], want_h)
            if badstep:
                rep.violation('step-taken:%s' % c['method'], dict(case=name, offsets=o['offs'][:12]), '%s: %s' % (name, badstep))
        if o['complex_real_moved']:
            rep.violation('complex-real-part', dict(case=name), '%s: the complex-step method moved the real part of x' % name)
        rec = MREC[(c['n'], c['m'], c['kind'])]
        G = np.array([multi.vec(g) for g in rec['grads']])[:c['m']]
        x0 = multi.X0[:c['n']]
        sc = multi.scale_of(rec, x0)
        if c['kind'] == 'smooth' and c['rel'] == 2:
            continue          # steps of 0.01*|x| (up to 1.0 here) leave the small-step regime of the smooth functions: values not compared
        for got, s in ((o['r1'], 2.0), (o['r2'], -1.5)):
            want = (G * s).reshape(np.shape(got)) if c['cls'] == 'Jacobian' else (G[0] * s).reshape(np.shape(got))
            err = np.abs(np.asarray(got) - want).max()
            h = {0: 1e-5, 1: 1e-4, 2: 1e-2}[c['rel']] * max(1.0, max(abs(t) for t in x0))     # scipy's steps are relative to |x|
            if c['method'] == 'complex':
                tol = (1e-11 if c['kind'] == 'affine' or c['rel'] == 0 else 30 * h * h + 1e-11) * sc
            else:
                tol = (1e-8 if c['kind'] == 'affine' else (30 * h if c['method'] == 'forward' or c['place'] != 'nobounds' else 30 * h * h + 1e-7)) * sc
            if not err <= tol:
                rep.violation('value:%s:%s' % (c['method'], c['kind']), dict(case=name, got=got, want=want.tolist(), scale_arg=s),
                              '%s: result %s, exact %s (extra argument s=%g)' % (name, np.round(got, 8).tolist(), want.tolist(), s))
                break
    scases = [(nn, mm, tiny, kind) for nn in (2, 3, 5) for mm in (1, 2, 4) for tiny in (6e-9, 1e-12, 3e-5) for kind in ('affine', 'smooth')]
    for sc_, why in zip(scases, vlib.pool_map(run_scaled, scases, chunksize=4)):
        n += 1
        if why:
            rep.violation('scaled:%s' % sc_[3], dict(case=list(sc_)), 'complex-step Jacobian of a badly scaled %s map (n=%d, m=%d, one column scaled by %g): %s' % (sc_[3], sc_[0], sc_[1], sc_[2], why))
    vcases = [(kind, nn, method) for kind in VIEWS for nn in (2, 3, 5) for method in ('central', 'forward', 'complex')]
    for vc, why in zip(vcases, vlib.pool_map(run_view, vcases, chunksize=4)):
        n += 1
        if why:
            rep.violation('view:%s' % vc[2], dict(case=list(vc)), 'Jacobian of the map %s (returns a view of its argument), n=%d, %s: %s' % (vc[0], vc[1], vc[2], why))
    states, trans, per = vlib.merge_tlc([res, mres])
    cov = dict(states=states, transitions=trans, traces_validated_against_impl=n, samples=[CASES[3]], evaluations=n,
               distinct_nontrivial=len({(c['cls'], c['n'], c['m'], c['method'], c['place'], c['rel'], c['kind']) for c in CASES if c['place'] != 'nobounds'}),
               rule='TLC: class x n 1..6 x m 1..5 x {central, forward, complex} x 8 placements in the box (three of them half-open boxes with infinite faces) x 3 relative steps; functions affine / smooth from MC_Multi; non-trivial = bounded case',
               tlc=per)
    assum = ['scipy.optimize approx_derivative is observed, not modelled', 'tolerances: complex 1e-11*scale; affine 1e-8*scale; smooth O(h) one-sided / O(h^2) central']
    return cov, assum
