"""./check <property-id> [--tier quick|thorough] [--replay <file>]"""
import sys, os, argparse, importlib, traceback, json
sys.path.insert(0, os.path.dirname(os.path.abspath(__file__)))
import vlib


def main():
    ap = argparse.ArgumentParser()
    ap.add_argument('pid')
    ap.add_argument('--tier', default=os.environ.get('VERIF_TIER', 'quick'))
    ap.add_argument('--replay', default=None)
    a = ap.parse_args()
    tier = a.tier if a.tier in ('quick', 'thorough') else 'quick'
    pid = a.pid.upper()
    vlib.use_repo()
    try:
        mod = importlib.import_module(pid.lower())
    except ImportError:
        traceback.print_exc()
        print('no check for %s' % pid)
        return 2
    rep = vlib.Reporter(pid, tier)
    try:
        if a.replay:
            # a replay file names the tier, the seed and the key of one reported violation: the check is re-run under exactly
            # those and the verdict is whether THAT violation occurs again (exit 1) or not (exit 0)
            case = json.load(open(a.replay))
            os.environ['VERIF_SEED'] = str(case.get('seed', vlib.seed_from_env()))
            rep = vlib.Reporter(pid, case.get('tier', tier))
            mod.run(case.get('tier', tier), rep)
            same = [v for v in rep.violations if v and v['key'] == case.get('key')]
            exact = [v for v in same if json.dumps(v['case'], sort_keys=True, default=vlib._jd) == json.dumps(case.get('case'), sort_keys=True, default=vlib._jd)]
            hit = exact or same
            if hit:
                print('VIOLATION property=%s replay=%s' % (pid, a.replay))
                print('  why: %s' % hit[0]['why'])
                print('%s: reproduced (%s)' % (pid, 'same case' if exact else 'same kind, %d occurrence(s)' % len(same)))
                return 1
            print('%s: the violation %r of %s is not reproduced on this tree (%d other violation(s))' % (pid, case.get('key'), a.replay, len([v for v in rep.violations if v])))
            return 0
        coverage, assumptions = mod.run(tier, rep)
        return rep.finish(coverage, assumptions)
    except vlib.ItemTimeout as ex:
        rep.violation('hang', dict(item=str(ex)), 'a call into the library did not return within %g s: %s' % (vlib.ITEM_LIMIT, ex))
        return rep.finish(dict(aborted='a replayed call did not return: the run stopped there; the two counts below are the schema minimums, not measurements', evaluations=1, distinct_nontrivial=2), ['aborted by the per-item time limit'])
    except vlib.MachineryError as ex:
        print('MACHINERY-FAILURE %s: %s' % (pid, ex))
        return 2
    except Exception:
        traceback.print_exc()
        print('MACHINERY-FAILURE %s: unexpected exception in the checker' % pid)
        return 2


if __name__ == '__main__':
    sys.exit(main())
