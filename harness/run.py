"""./check <property-id> [--tier quick|thorough] [--replay <file>]"""
import sys, os, argparse, importlib, traceback, json
sys.path.insert(0, os.path.dirname(os.path.abspath(__file__)))
import vlib


def main():
    ap = argparse.ArgumentParser()
    ap.add_argument('pid')
    ap.add_argument('--tier', default=os.environ.get('VERIF_TIER', 'quick'))
    ap.add_argument('--replay', default=None)
    a = ap.parse_args()
    tier = a.tier if a.tier in ('quick', 'thorough') else 'quick'
    pid = a.pid.upper()
    vlib.use_repo()
    try:
        mod = importlib.import_module(pid.lower())
    except ImportError:
        traceback.print_exc()
        print('no check for %s' % pid)
        return 2
    rep = vlib.Reporter(pid, tier)
    try:
        if a.replay:
            case = json.load(open(a.replay))
            return mod.replay(case, rep)
        coverage, assumptions = mod.run(tier, rep)
        return rep.finish(coverage, assumptions)
    except vlib.MachineryError as ex:
        print('MACHINERY-FAILURE %s: %s' % (pid, ex))
        return 2
    except Exception:
        traceback.print_exc()
        print('MACHINERY-FAILURE %s: unexpected exception in the checker' % pid)
        return 2


if __name__ == '__main__':
    sys.exit(main())
