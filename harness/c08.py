"""C08 - array inputs are handled elementwise and keep their shape.

spec/Shapes.tla enumerates (shape with 0..3 axes and <= 40 elements, memory layout of the input,
target position, how the other elements are replaced, method, n, order); the column clause itself
(the estimate for column c is built from column c only) is the InvRecord invariant of
spec/Pipeline.tla.  Metamorphic replay, the oracle being the property's own: the result at the
target position must be bit-identical when the other elements are replaced (also by values that
leave the function's domain at the larger steps), identical for every memory layout of the same
values, and equal to the evaluation of that element alone as a scalar (bit-identical for real-step
methods, within the error estimate for complex-step methods); info.index maps to the own column."""
import random
import numpy as np
import vlib

RECS = None


def fun(x):
    # exactly rounded operations only (*, +, sqrt): scalar and array evaluation agree bit for bit
    return x * x * x * 0.25 + np.sqrt(x + 0.5) * x


def fun_pow(x):
    """the same function written with the power operator"""
    return x ** 3 * 0.25 + (x + 0.5) ** 0.5 * x


def fun_odd(x):
    # odd, exactly rounded operations only, and not a polynomial
    return x * x * x * 0.25 + x * np.sqrt(x * x + 0.5)


def base_values(size):
    p = np.arange(size)
    return 0.75 + 0.125 * ((7 * p) % 11) - 0.25 * (p % 3)


def with_layout(vals, shape, layout):
    a = np.array(vals, dtype=float).reshape(shape)
    if layout == 'F':
        return np.asfortranarray(a)
    if layout == 'transposed':
        return np.ascontiguousarray(a.T).T          # a view with reversed strides
    if layout == 'readonly':
        a.flags.writeable = False               # the caller's array must never be written to
        return a
    if layout == 'strided':
        big = np.zeros(tuple(shape[:-1]) + (2 * shape[-1],))
        big[..., ::2] = a
        return big[..., ::2]
    return a


def run_case(ri):
    vlib.use_repo()
    import numdifftools as nd
    r = RECS[ri]
    shape, pos, col, size = tuple(r['shape']), tuple(r['pos']), r['col'], r['size']
    vals = base_values(size)
    alt = vals.copy()
    mask = np.arange(size) != col
    if r['others'] == 'clustered':
        # every element within 1e-6 (relative) of the others, |x| > 1 (a tolerance test on x must not make neighbours share anything)
        vals = 2.75 * (1.0 + 3e-7 * np.arange(size))
        alt = vals.copy()
        alt[mask] += 0.37
    elif r['others'] == 'moved':
        alt[mask] += 0.37
    elif r['others'] == 'scaled':
        alt[mask] *= 1.5
    elif r['others'] == 'zero':
        alt[mask] = 0.0                         # exactly zero neighbours (zero divisors for bicomplex powers)
    elif r['others'] == 'huge':
        alt[mask] = 1e16                        # x + h == x for every generated step there
    else:
        # the target (and the unaltered array) stay inside the domain for EVERY generated step, the altered neighbours do not:
        # sqrt(x + 0.5) is NaN there for steps above 0.05 - a neighbour without a single finite estimate, or with some
        # non-finite rows, must not change how the target's own (all finite) table is extrapolated
        vals = vals + 3.25
        alt = vals.copy()
        alt[mask] = -0.45
    probs = []
    try:
        with np.errstate(all='ignore'):
            # multicomplex: half of the cases use the power operator (bicomplex powers go through log/exp); for the other methods
            # numpy's array and scalar pow round differently, which would break the exactly-rounded premise of the bit-identity clauses
            FUN = fun_pow if (ri % 2 and r['m'] == 'multicomplex') else fun
            if r['others'] == 'zero' and r['m'] == 'central' and r['n'] % 2 == 0 and ri % 2 == 0:
                # an odd function: at the neighbours (exactly 0) every even-order central estimate is exactly 0 - a column whose estimates
                # all coincide must not change how the other columns are selected
                FUN = fun_odd
            d = nd.Derivative(FUN, n=r['n'], method=r['m'], order=r['o'], full_output=True)
            x = with_layout(vals, shape, r['layout'])
            v1, i1 = d(x)
            v2, i2 = nd.Derivative(FUN, n=r['n'], method=r['m'], order=r['o'], full_output=True)(with_layout(alt, shape, r['layout']))
            v3, i3 = nd.Derivative(FUN, n=r['n'], method=r['m'], order=r['o'], full_output=True)(float(vals[col]))
            v4, i4 = nd.Derivative(FUN, n=r['n'], method=r['m'], order=r['o'], full_output=True)(np.array(vals).reshape(shape))
    except Exception as ex:
        return ['raises: %s: %s' % (type(ex).__name__, str(ex)[:150])]
    if np.shape(v1) != shape:
        return ['shape: result %s for input %s (%s layout)' % (np.shape(v1), shape, r['layout'])]
    same = lambda a, b: np.asarray(a).tobytes() == np.asarray(b).tobytes()
    at = lambda a: np.asarray(a).reshape(shape)[pos] if shape else np.asarray(a).reshape(())
    for name, a, b in (('value', v1, v2), ('error_estimate', i1.error_estimate, i2.error_estimate), ('final_step', i1.final_step, i2.final_step)):
        if np.shape(a) != shape and np.size(a) == size:
            a, b = np.reshape(a, shape), np.reshape(b, shape)
        if not same(at(a), at(b)):
            probs.append('others: %s at %s changes from %r to %r when only the OTHER elements are replaced (%s)' % (name, pos, at(a), at(b), r['others']))
            break
    if not same(v1, v4):
        probs.append('layout: the %s-layout input gives a different result than the same values in C layout (first difference %r vs %r)' % (r['layout'], np.ravel(v1)[:3].tolist(), np.ravel(v4)[:3].tolist()))
    if r['m'] in ('central', 'forward', 'backward'):
        if not same(at(v1), np.asarray(v3).reshape(())):
            probs.append('scalar: element %s in the array gives %r, alone as a scalar %r' % (pos, at(v1), float(v3)))
        if size > 7 and not probs:
            # every element, not only the target: an array with more elements than generated steps must not change any of them
            flat = np.asarray(v1).reshape(-1)
            try:
                with np.errstate(all='ignore'):
                    for q in range(size):
                        vq = nd.Derivative(FUN, n=r['n'], method=r['m'], order=r['o'])(float(vals[q]))
                        if not same(flat[q], np.asarray(vq).reshape(())):
                            probs.append('scalar: element #%d (x = %r) of the %d-element array gives %r, alone as a scalar %r' % (q, float(vals[q]), size, float(flat[q]), float(vq)))
                            break
            except Exception as ex:
                probs.append('raises: scalar evaluation: %s' % ex)
    else:
        est = abs(float(np.ravel(i3.error_estimate)[0])) + abs(float(np.ravel(i1.error_estimate)[col]))
        if not abs(at(v1) - float(v3)) <= 10 * est + 1e-12 * abs(float(v3)):
            probs.append('scalar: element %s in the array gives %r, alone %r, beyond the error estimates' % (pos, at(v1), float(v3)))
    # one object, same x, different extra arguments: each call must equal a fresh object's call
    g = lambda z, s=1.0, t=0.0: fun(z) * s * (1.0 + t)          # s = 2, t = 1: every value of f is multiplied by exactly 4 (a power of two: the whole computation scales exactly)
    try:
        with np.errstate(all='ignore'):
            dd = nd.Derivative(g, n=r['n'], method=r['m'], order=r['o'], full_output=True)
            xx = np.array(vals).reshape(shape)
            a1 = dd(xx, 2.0, t=1.0)
            keep1 = np.array(a1[0], copy=True)
            base_ = nd.Derivative(fun, n=r['n'], method=r['m'], order=r['o'], full_output=True)(xx)
            if not np.array_equal(np.asarray(a1[0]), 4.0 * np.asarray(base_[0]), equal_nan=True):
                probs.append('args: with s=2.0 and the keyword t=1.0 (f multiplied by exactly 4) the result is %r, 4 * the result for f = %r' % (np.ravel(a1[0])[:3].tolist(), (4.0 * np.ravel(base_[0]))[:3].tolist()))
            # the same through *args / **kwargs of f (a generic wrapper): nothing is filtered against f's signature
            gk = lambda z, *coef, **options: fun(z) * coef[0] * (1.0 + options.get('t', 0.0))
            k1 = nd.Derivative(gk, n=r['n'], method=r['m'], order=r['o'], full_output=True)(xx, 2.0, t=1.0)
            if not np.array_equal(np.asarray(k1[0]), 4.0 * np.asarray(base_[0]), equal_nan=True):
                probs.append('args: f(z, *coef, **options) called with coef = (2.0,), t=1.0 gives %r, 4 * the result for f = %r' % (np.ravel(k1[0])[:3].tolist(), (4.0 * np.ravel(base_[0]))[:3].tolist()))
            a2 = dd(xx, -0.5)
            if not np.array_equal(np.asarray(a1[0]), keep1, equal_nan=True):
                probs.append('args: the array returned by the first call was changed by the second call of the same object')
            b2 = nd.Derivative(g, n=r['n'], method=r['m'], order=r['o'], full_output=True)(xx, -0.5)
            # ... and the same ARRAY after it was changed in place (an object must not remember anything about an earlier x)
            xw = np.array(vals).reshape(shape)
            w1 = dd(xw, 1.0)
            xw += 0.37
            w2 = dd(xw, 1.0)
            f2 = nd.Derivative(g, n=r['n'], method=r['m'], order=r['o'], full_output=True)(np.array(vals).reshape(shape) + 0.37, 1.0)
            if not (same(w2[0], f2[0]) and same(w2[1].error_estimate, f2[1].error_estimate) and same(w2[1].f_value, f2[1].f_value)):
                probs.append('args: the same object called again after x was changed in place gives %r, a fresh object %r' % (np.ravel(w2[0])[:3].tolist(), np.ravel(f2[0])[:3].tolist()))
            # a single extra argument whose VALUE is a tuple (or a list) is one argument
            gt = lambda z, pair, t=0.0: fun(z) * pair[0] + pair[1] * t
            t1 = nd.Derivative(gt, n=r['n'], method=r['m'], order=r['o'], full_output=True)(xx, (2.0, 5.0))
            t2 = nd.Derivative(gt, n=r['n'], method=r['m'], order=r['o'], full_output=True)(xx, [2.0, 5.0])
            t3 = nd.Derivative(g, n=r['n'], method=r['m'], order=r['o'], full_output=True)(xx, 2.0)
            if not (same(t1[0], t3[0]) and same(t2[0], t3[0])):
                probs.append('args: a tuple-valued extra argument gives %r, the same function with scalar arguments %r' % (np.ravel(t1[0])[:3].tolist(), np.ravel(t3[0])[:3].tolist()))
        if not (same(a2[0], b2[0]) and same(a2[1].error_estimate, b2[1].error_estimate) and same(a2[1].f_value, b2[1].f_value)):
            probs.append('args: second call with other extra arguments on the same object gives %r, a fresh object %r' % (np.ravel(a2[0])[:3].tolist(), np.ravel(b2[0])[:3].tolist()))
    except Exception as ex:
        probs.append('raises: %s' % ex)
    if r['m'] in ('central', 'forward', 'backward') and r['n'] <= 2:
        # re-entrant use: f calls the SAME object again with other extra arguments; the outer call's arguments must still
        # reach f on every later evaluation (compared with two unrelated objects doing the same computation)
        def g2(z, s=1.0, t=0.0, inner=None):
            out = fun(z) * s + t
            return out + 0.125 * inner(z, -0.5)[0] if inner is not None else out
        try:
            with np.errstate(all='ignore'):
                mk = lambda: nd.Derivative(g2, n=r['n'], method=r['m'], order=r['o'], full_output=True)
                xx = np.array(vals).reshape(shape)
                same_obj = mk()
                c1 = same_obj(xx, 2.0, t=1.0, inner=same_obj)
                c2 = mk()(xx, 2.0, t=1.0, inner=mk())
            if not (same(c1[0], c2[0]) and same(c1[1].error_estimate, c2[1].error_estimate)):
                probs.append('args: a function that calls the same object again with other extra arguments gives %r, with two separate objects %r' % (np.ravel(c1[0])[:3].tolist(), np.ravel(c2[0])[:3].tolist()))
        except Exception as ex:
            probs.append('raises: re-entrant call: %s' % ex)
    idx = np.ravel(i1.index)
    if idx.size != size or int(idx[col]) % size != col:
        probs.append('index: info.index[%d] = %r is not in column %d of the estimate table' % (col, idx[col] if idx.size > col else None, col))
    return probs


def fun_pole(x):
    # odd, exactly rounded operations only (division included), simple poles at +-1: close to a pole the estimates from the large
    # steps are wild and the selection of the target's estimate relies on the per-column outlier penalty
    return x / (x * x - 1.0)


POLE_TARGETS = [1.0 - 0.004 * k - 0.000960424903905 for k in range(3, 28)] + [1.0 + 0.004 * k + 0.00071 for k in range(3, 28)]
POLE_OTHERS = ([0.0], [0.5], [0.0, 2.5], [-0.25, 0.0, 3.0])


POLE_CFGS = [(2, 2), (2, 4), (4, 2), (4, 4)]


def run_pole(no):
    """fixed family (not sampled): a target next to a pole TOGETHER with a neighbour whose estimates all coincide (x = 0 for an odd
    function and even n: every central estimate is exactly 0, the column's inter-quartile range is 0) or that is benign; value,
    error estimate and final step of the target must be bit-identical to its evaluation alone as a scalar"""
    vlib.use_repo()
    import numdifftools as nd
    n, o = no
    out = []
    same = lambda a, b: np.asarray(a).tobytes() == np.asarray(b).tobytes()
    for t in POLE_TARGETS:
        try:
            with np.errstate(all='ignore'):
                v0, i0 = nd.Derivative(fun_pole, n=n, method='central', order=o, full_output=True)(t)
                for others in POLE_OTHERS:
                    v, i = nd.Derivative(fun_pole, n=n, method='central', order=o, full_output=True)(np.array([t] + others))
                    for name, a, b in (('value', v[0], v0), ('error_estimate', np.ravel(i.error_estimate)[0], np.ravel(i0.error_estimate)[0]),
                                       ('final_step', np.ravel(i.final_step)[0], np.ravel(i0.final_step)[0])):
                        if not same(a, np.asarray(b).reshape(())):
                            out.append((t, others, 'pole: %s of x = %r (f = x/(x*x-1), central n=%d order=%d) is %r with the neighbours %r, %r alone as a scalar'
                                        % (name, t, n, o, float(a), others, float(np.asarray(b).reshape(())))))
                            break
        except Exception as ex:
            out.append((t, None, 'raises: pole family: %s: %s' % (type(ex).__name__, str(ex)[:150])))
    return len(POLE_TARGETS) * len(POLE_OTHERS), out


def run(tier, rep):
    global RECS
    seed = vlib.seed_from_env()
    cfg = "CONSTANT EmitOn = TRUE\nINIT Init\nNEXT Next\nCHECK_DEADLOCK FALSE\nINVARIANT InvPosInside\nINVARIANT InvSmall\nCONSTRAINT Emit\n"
    res = vlib.tlc('Shapes', cfg_text=cfg)
    if res.violated:
        raise vlib.MachineryError('Shapes violates %s' % res.violated)
    vlib.require_ok(res)
    recs = sorted(res.records, key=lambda r: (r['shape'], r['pos'], r['layout'], r['others'], r['m'], r['n'], r['o']))
    rnd = random.Random(seed)
    if tier == 'quick':
        # every (shape, layout, others) combination at least once, then a seeded sample
        byk = {}
        for r in recs:
            byk.setdefault((tuple(r['shape']), r['layout'], r['others']), []).append(r)
        pick = [rnd.choice(v) for v in byk.values()] + rnd.sample(recs, 900)
        recs = pick
    RECS = recs
    outs = vlib.pool_map(run_case, list(range(len(recs))), chunksize=8)
    n = 0
    for r, probs in zip(recs, outs):
        n += 1
        name = 'shape=%s pos=%s layout=%s others=%s | %s n=%d order=%d' % (r['shape'], r['pos'], r['layout'], r['others'], r['m'], r['n'], r['o'])
        for p in probs[:1]:
            rep.violation(p.split(':')[0] + ':' + r['m'], dict(case=r), '%s: %s' % (name, p))
    npole = 0
    for no, (cnt, bad) in zip(POLE_CFGS, vlib.pool_map(run_pole, POLE_CFGS, chunksize=1)):
        npole += cnt
        for t, others, p in bad[:1]:
            rep.violation(p.split(':')[0] + ':central', dict(case=dict(family='pole', n=no[0], o=no[1], x=t, others=others)), p)
    n += npole
    # the column clause at design level: Pipeline.InvRecord
    pcfg = "CONSTANTS\n  SMax = 12\n  EmitOn = FALSE\nSPECIFICATION Spec\nCHECK_DEADLOCK FALSE\nINVARIANT InvRows\nINVARIANT InvRecord\n"
    pres = vlib.tlc('Pipeline', cfg_text=pcfg, tag='Pipeline_c08')
    if pres.violated:
        raise vlib.MachineryError('Pipeline violates %s' % pres.violated)
    states, trans, per = vlib.merge_tlc([res, pres])
    cov = dict(states=states, transitions=trans, traces_validated_against_impl=n, samples=[recs[0], recs[-1]], evaluations=4 * n,
               distinct_nontrivial=len({(tuple(r['shape']), tuple(r['pos']), r['layout'], r['others'], r['m'], r['n'], r['o']) for r in recs if r['size'] > 1}),
               exhaustive=tier != 'quick',
               rule='TLC: 12 shapes x 3 positions x 4 layouts x 3 replacement modes x 5 methods x n 1..4 x orders {2,4}; quick replays every (shape, layout, mode) once plus 900 seeded cases, thorough all; non-trivial = more than one element; plus the fixed pole family (50 targets next to the poles of x/(x*x-1) x 4 neighbour sets x n {2,4} x order {2,4}, every tier, every seed)',
               tlc=per)
    assum = ['test function x*x*x/4 + sqrt(x+1/2)*x uses exactly rounded operations only', 'args/kwds forwarding is validated with the evaluation traces of C05 (token field)']
    return cov, assum
