"""Truncated Taylor-series arithmetic in floating point: a transcription of spec/Jets.tla (same recurrences,
generalised from the rational base values 0 / 1 to an arbitrary base value a_0), used to carry the
specification's oracle to inner points where the coefficients are not rational (arctan at 0.8, (u - 1.7)**3, ...).
The transcription is itself checked against the specification on every run: for every program TLC emits,
`run_program(prog, c, 0.0)` must reproduce the rational jet of the behaviour (c01.transcription_conforms)."""
import math

K = 12


class DomainError(ValueError):
    pass


def const(q):
    return [float(q)] + [0.0] * K


def var(p, c):
    return [float(p), float(c)] + [0.0] * (K - 1)


def add(a, b):
    return [x + y for x, y in zip(a, b)]


def sub(a, b):
    return [x - y for x, y in zip(a, b)]


def scale(q, a):
    return [q * x for x in a]


def addc(a, q):
    return [a[0] + q] + a[1:]


def mul(a, b):
    return [math.fsum(a[j] * b[k - j] for j in range(k + 1)) for k in range(K + 1)]


def div(a, b):
    if abs(b[0]) < 0.05:
        raise DomainError('division by a value close to zero')
    q = []
    for k in range(K + 1):
        q.append((a[k] - math.fsum(b[j] * q[k - j] for j in range(1, k + 1))) / b[0])
    return q


def integrate(a0, u, g):
    """a0 + int u' g"""
    return [a0] + [math.fsum(j * u[j] * g[k - j] for j in range(1, k + 1)) / k for k in range(1, K + 1)]


def exp(u):
    if abs(u[0]) > 30:
        raise DomainError('exp of a large value')
    e = [math.exp(u[0])]
    for k in range(1, K + 1):
        e.append(math.fsum(j * u[j] * e[k - j] for j in range(1, k + 1)) / k)
    return e


def expm1(u):
    e = exp(u)
    return [math.expm1(u[0])] + e[1:]


def log(v):
    if v[0] < 0.05:
        raise DomainError('log of a value close to or below zero')
    return integrate(math.log(v[0]), v, div(const(1), v))


def log1p(u):
    if u[0] < -0.95:
        raise DomainError('log1p close to -1')
    l = log(addc(u, 1.0))
    return [math.log1p(u[0])] + l[1:]


def sqrt(v):
    if v[0] < 0.05:
        raise DomainError('sqrt of a value close to or below zero')
    s = [math.sqrt(v[0])]
    for k in range(1, K + 1):
        s.append((v[k] - math.fsum(s[j] * s[k - j] for j in range(1, k))) / (2 * s[0]))
    return s


def sincos(u):
    s, c = [math.sin(u[0])], [math.cos(u[0])]
    for k in range(1, K + 1):
        s.append(math.fsum(j * u[j] * c[k - j] for j in range(1, k + 1)) / k)
        c.append(-math.fsum(j * u[j] * s[k - j] for j in range(1, k + 1)) / k)
    return s, c


def sinhcosh(u):
    if abs(u[0]) > 30:
        raise DomainError('sinh of a large value')
    s, c = [math.sinh(u[0])], [math.cosh(u[0])]
    for k in range(1, K + 1):
        s.append(math.fsum(j * u[j] * c[k - j] for j in range(1, k + 1)) / k)
        c.append(math.fsum(j * u[j] * s[k - j] for j in range(1, k + 1)) / k)
    return s, c


def tan(u):
    s, c = sincos(u)
    if abs(c[0]) < 0.2:
        raise DomainError('tan close to a pole')
    return div(s, c)


def tanh(u):
    s, c = sinhcosh(u)
    return div(s, c)


def arctan(u):
    return integrate(math.atan(u[0]), u, div(const(1), addc(mul(u, u), 1.0)))


def arctanh(u):
    if abs(u[0]) > 0.9:
        raise DomainError('arctanh close to +-1')
    return integrate(math.atanh(u[0]), u, div(const(1), sub(const(1), mul(u, u))))


def arcsin(u):
    if abs(u[0]) > 0.9:
        raise DomainError('arcsin close to +-1')
    return integrate(math.asin(u[0]), u, div(const(1), sqrt(sub(const(1), mul(u, u)))))


def arcsinh(u):
    return integrate(math.asinh(u[0]), u, div(const(1), sqrt(addc(mul(u, u), 1.0))))


def power(v, p):
    """v**p for real p, v_0 > 0:  k w_k v_0 = sum_{j=1..k} (p j - (k - j)) v_j w_{k-j}"""
    if v[0] < 0.05:
        raise DomainError('real power of a value close to or below zero')
    w = [v[0] ** p]
    for k in range(1, K + 1):
        w.append(math.fsum((p * j - (k - j)) * v[j] * w[k - j] for j in range(1, k + 1)) / (k * v[0]))
    return w


def ipow(a, n):
    out = const(1)
    for _ in range(n):
        out = mul(out, a)
    return out


UNARY = dict(exp=exp, expm1=expm1, sin=lambda u: sincos(u)[0], cos=lambda u: sincos(u)[1], tan=tan, sinh=lambda u: sinhcosh(u)[0],
             cosh=lambda u: sinhcosh(u)[1], tanh=tanh, arctan=arctan, arcsin=arcsin, arcsinh=arcsinh, arctanh=arctanh,
             log1p=log1p, log=log, sqrt=sqrt, pow32=lambda v: power(v, 1.5), powm12=lambda v: power(v, -0.5))


def run_program(prog, c, p, want_scale=False):
    """jet (K+1 floats, in x) of the ExprMachine program at inner base value p, with u = c*(x - a) + p.
    want_scale: also return the size of the INTERMEDIATE values (largest of the first seven coefficients of every register the
    program passes through): a program that cancels (arcsinh(u) - tanh(u), log(exp(u)) - u) is evaluated by numpy with rounding
    noise proportional to its operands, not to its result"""
    A, B = var(p, c), None
    iscale = max(abs(t) for t in A[:7])
    for op in prog[1:]:
        iscale = max([iscale] + [abs(t) for t in A[:7] if math.isfinite(t)] + ([abs(t) for t in B[:7] if math.isfinite(t)] if B is not None else []))
        if op in UNARY:
            A = UNARY[op](A)
        elif op == 'ipow2':
            A = ipow(A, 2)
        elif op == 'ipow3':
            A = ipow(A, 3)
        elif op == 'add1':
            A = addc(A, 1.0)
        elif op == 'sub_half':
            A = addc(A, -0.5)
        elif op == 'mul2':
            A = scale(2.0, A)
        elif op == 'mul_mhalf':
            A = scale(-0.5, A)
        elif op == 'recip':
            A = div(const(1), A)
        elif op == 'dup':
            B, A = A, var(p, c)
        elif op == 'add':
            A = add(A, B)
        elif op == 'sub':
            A = sub(A, B)
        elif op == 'mul':
            A = mul(A, B)
        elif op == 'div':
            A = div(A, B)
        else:
            raise ValueError('unknown op %r' % op)
    if not all(math.isfinite(x) for x in A):
        raise DomainError('overflow')
    iscale = max([iscale] + [abs(t) for t in A[:7]])
    return (A, iscale) if want_scale else A
