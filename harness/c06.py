"""C06 - finite-difference rules: exact to their order and matched to Richardson.

TLC (spec/Rules.tla via MC_Rules) enumerates every (method, n, order), proves the requirement
invariants on the specification's own transcription of the dispatch + stencil tables, and emits
per configuration: the discrete answers, the Taylor signature of the selected quotient, the
modelled exponents, and (small configurations) the exact rational weights.  This driver replays
each configuration into the real LogRule and compares."""
import math, itertools, random
from fractions import Fraction
import numpy as np
import vlib

EPS = np.finfo(float).eps
BWD_C = 64.0
KNOWN_ROUND_DOWN = 'order-rounded-down'


def tlc_cases(tier):
    nmax = 10 if tier == 'quick' else 12
    cfg = open(vlib.SPEC + '/MC_Rules.cfg').read().replace('NMax = 10', 'NMax = %d' % nmax).replace('OMax = 10', 'OMax = %d' % nmax)
    r = vlib.tlc('MC_Rules', cfg_text=cfg, tag='MC_Rules')
    if r.violated:
        raise vlib.MachineryError('specification itself violates %s (design-level counterexample):\n%s' % (r.violated, r.out[-2000:]))
    vlib.require_ok(r)
    if len(r.records) != 4 * nmax * nmax:
        raise vlib.MachineryError('expected %d records from MC_Rules, got %d' % (4 * nmax * nmax, len(r.records)))
    return r


def ratios(tier, seed):
    rnd = random.Random(seed)
    base = [2.0, 1.6, 4.0, 1.5, 3.0, 1.1, 10.0, 1.64, 2.04]
    # full-precision reals (not short decimals): a rule must belong to the ratio it was asked for, to the last bit
    extra = [rnd.uniform(1.05, 10.0) for _ in range(2 if tier == 'quick' else 8)] + [math.sqrt(2.0), math.e] + ([math.pi, (1 + math.sqrt(5.0)) / 2, 10.0 ** (1.0 / 3)] if tier != 'quick' else [])
    # pairs of ratios closer than 1e-7 (in this order): a rule belongs to the ratio it was asked for, not to a neighbour seen before
    near = [1.6 * (1 + 4e-8), 2.0 * (1 + 3e-8), 3.0 * (1 - 2e-8), 1.5 * (1 + 1e-9)]
    return base + extra + near


def proj_rule(rule_obj):
    n = rule_obj.n
    mo = rule_obj.method_order
    return dict(diff=rule_obj.diff.__name__, rstep=int(rule_obj.richardson_step), morder=int(mo),
                parity=int(rule_obj._parity(rule_obj.method, n - 1, mo)),
                evalfirst=bool(rule_obj.eval_first_condition), flip=-1 if rule_obj._flip_fd_rule else 1)


def decode_fd_matrix(LogRule, parity, nterms):
    """exponents k_j and c_0 out of the real moment matrix for ratio 2 (every entry is
    c_0/k_j! * 2^(-i k_j), so the decoding is exact)."""
    if nterms == 1:
        M = LogRule._fd_matrix(2.0, parity, 2)
    else:
        M = LogRule._fd_matrix(2.0, parity, nterms)
    ks = []
    for j in range(nterms):
        k = -math.log2(M[1][j] / M[0][j])
        if abs(k - round(k)) > 1e-9:
            return None, None
        ks.append(int(round(k)))
    c0 = [M[0][j] * math.factorial(ks[j]) for j in range(nterms)]
    return ks, c0


def spec_matrix(rec, r):
    """the moment matrix of the SPECIFICATION's signature (Rules.tla: exponents and c0 of the configuration) for ratio r -
    conditioning and tolerances are derived from it, never from the library's own _fd_matrix"""
    nt = rec['nterms']
    M = np.empty((nt, nt))
    for i in range(nt):
        for j, k in enumerate(rec['exps']):
            M[i, j] = rec['c0'] / math.factorial(k) * (1.0 / r) ** (i * k)
    return M


def moment_residuals(w, exps, c0, r_exact):
    """sum_i w_i * c_j * t_j^i  in exact arithmetic on the floating-point weights."""
    wf = [Fraction(float(x)) for x in w]
    out = []
    for j, k in enumerate(exps):
        t = Fraction(1) / (r_exact ** k)
        cj = Fraction(c0, math.factorial(k))
        s = Fraction(0)
        sa = Fraction(0)
        p = Fraction(1)
        for i in range(len(wf)):
            term = wf[i] * cj * p
            s += term
            sa += abs(term)
            p *= t
        out.append((s, sa))
    return out


def check_config(rec, rep, stats, rts, first_pass, shared=None):
    from numdifftools import finite_difference as fdm
    m, n, o = rec['m'], rec['n'], rec['o']
    key = '%s/n=%d/order=%d' % (m, n, o)
    if shared is None:
        rule_obj = fdm.LogRule(n=n, method=m, order=o)
    else:  # one object re-configured through its public attributes (history of other configurations behind it)
        rule_obj = shared
        rule_obj.n, rule_obj.method, rule_obj.order = n, m, o
    # (a) discrete dispatch
    try:
        got = proj_rule(rule_obj)
    except Exception as ex:
        rep.violation('dispatch:' + key, rec_small(rec), 'dispatch raised %r' % (ex,))
        return
    for f in ('diff', 'rstep', 'morder', 'parity', 'evalfirst', 'flip'):
        if got[f] != rec[f]:
            rep.violation('dispatch:%s:%s' % (f, key), dict(spec=rec_small(rec), impl=got),
                          '%s: implementation says %s=%r, specification %r' % (key, f, got[f], rec[f]))
            return
    stats['dispatch'] += 1
    # (b) moment matrix tables
    ks, c0s = decode_fd_matrix(fdm.LogRule, rec['parity'], rec['nterms'])
    if ks != rec['exps'] or any(abs(c - rec['c0']) > 1e-9 * rec['c0'] for c in c0s):
        rep.violation('fdmatrix:' + key, dict(spec=rec_small(rec), impl=dict(exps=ks, c0=c0s)),
                      '%s: _fd_matrix models exponents %s with c0 %s, specification %s / %s' % (key, ks, c0s, rec['exps'], rec['c0']))
        return
    # (c) signature of the real difference quotient on monomials
    diff = rule_obj.diff
    for k, sq in enumerate(rec['sig']):
        want = vlib.fl(sq)
        f = (lambda t, k=k: t ** k) if k else (lambda t: 1.0 + 0 * t)
        try:
            val = diff(f, f(0.0), 0.0, 1.0)
        except Exception as ex:
            rep.violation('signature:' + key, rec_small(rec), 'diff raised %r on t^%d' % (ex, k))
            return
        val = complex(val)
        if abs(val - want) > 1e-9 * max(1.0, abs(want)):
            rep.violation('signature:%s:k=%d' % (key, k), dict(spec=rec_small(rec), k=k, impl=[val.real, val.imag], want=want),
                          '%s: quotient %s applied to t^%d gives %r, Taylor signature says %r' % (key, rec['diff'], k, val, want))
            return
    stats['signature'] += 1
    # order honoured (first sentence) -- known finding for orders that are not a multiple of the spacing
    if not rec['honoured']:
        if o % rec['rstep'] != 0 and o > rec['rstep'] and got['morder'] == (o // rec['rstep']) * rec['rstep']:
            rep.violation(KNOWN_ROUND_DOWN, rec_small(rec), 'requested order %d delivered as %d' % (o, got['morder']))
            stats['rounded_down'] += 1
        elif o < rec['rstep']:
            pass
        else:
            rep.violation('order-not-honoured:' + key, rec_small(rec), 'method_order %d < requested %d' % (got['morder'], o))
    # (d) weights: moment equations in exact arithmetic on the float weights
    for r in rts:
        rx = (r + 1.0) - 1.0
        try:
            w = np.array(rule_obj.rule(r), dtype=float)
        except Exception as ex:
            rep.violation('rule-raises:' + key, rec_small(rec), 'rule(%r) raised %r' % (r, ex))
            return
        if w.shape != (rec['nterms'],):
            rep.violation('rule-length:' + key, dict(spec=rec_small(rec), got=list(w.shape)),
                          '%s: rule(%r) has %s weights, specification %d' % (key, r, w.shape, rec['nterms']))
            return
        M = spec_matrix(rec, rx)
        kappa = np.linalg.cond(M)
        if not np.isfinite(kappa) or kappa > 1e14:
            stats['skipped_illconditioned'] += 1      # beyond 1e14 numpy.linalg.pinv (rcond 1e-15) starts discarding singular values: no rule to speak of
            continue
        res = moment_residuals(w, rec['exps'], rec['c0'], Fraction(rx))
        bad = None
        # the weights are one row of pinv(M) computed by an SVD: backward stable, so the moment equations hold up to
        # C*eps*||M||*||w|| however ill-conditioned M is; for well-conditioned M the sharper forward bound is used too
        bwd = BWD_C * EPS * np.linalg.norm(M, 2) * np.linalg.norm(w, 2)
        illc = kappa * EPS > 1e-4
        if illc:
            stats['illconditioned_backward_only'] += 1
        for j, (s, sa) in enumerate(res):
            target = rec['flip'] if j == rec['rindex'] else 0
            err = abs(float(s - target))
            tol = bwd if illc else min(bwd, 8 * EPS * kappa * max(float(sa), 1.0))
            stats['max_moment_ratio'] = max(stats['max_moment_ratio'], err / tol)
            stats['max_backward_ratio'] = max(stats['max_backward_ratio'], err / bwd * BWD_C)
            if err > tol:
                bad = (j, err, tol)
                break
        if bad:
            rep.violation('weights:%s:r=%r' % (key, r), dict(spec=rec_small(rec), ratio=r, weights=w.tolist(), column=bad[0], err=bad[1], tol=bad[2]),
                          '%s ratio %r: moment equation for h^%d off by %.3g (tolerance %.3g, cond %.3g)' % (key, r, rec['exps'][bad[0]], bad[1], bad[2], kappa))
            return
        stats['weights'] += 1
        # exact weights computed by TLC
        exact = {2.0: rec['w2'], 4.0: rec['w4'], 1.5: rec['w32']}.get(r)
        if exact:
            ex = np.array([vlib.fl(q) for q in exact])
            tol = 8 * EPS * kappa * np.abs(ex).max()
            if np.abs(ex - w).max() > tol:
                rep.violation('exact-weights:%s:r=%r' % (key, r), dict(spec=rec_small(rec), exact=exact, impl=w.tolist()),
                              '%s ratio %r: weights %s differ from the exact rational rule %s' % (key, r, w.tolist(), ex.tolist()))
                return
            stats['exact_weight_rules'] += 1
    # (e) end to end through apply(): polynomial exactness, leading power and spacing
    if first_pass:
        end_to_end(rule_obj, rec, rep, stats, key)


def end_to_end(rule_obj, rec, rep, stats, key):
    n, mo, nt = rec['n'], rec['morder'], rec['nterms']
    r = 2.0
    nsteps = nt + 2
    steps = [2.0 ** (-i) for i in range(nsteps)]
    diff = rule_obj.diff
    nfact = math.factorial(n)
    from numdifftools import finite_difference as fdm
    M = spec_matrix(rec, r)
    kappa = np.linalg.cond(M)
    if kappa * EPS > 1e-4:
        stats['skipped_illconditioned'] += 1
        return
    fu = rec['fu']
    for d in range(0, min(fu + 2 * rec['rstep'], 30) + 1):
        f = (lambda t, d=d: t ** d) if d else (lambda t: 1.0 + 0 * t)
        seq = [diff(f, f(0.0), 0.0, h) for h in steps]
        try:
            der, hh, shape = rule_obj.apply(seq, steps, r)
        except Exception as ex:
            rep.violation('apply-raises:' + key, rec_small(rec), 'apply raised %r on t^%d with %d steps' % (ex, d, nsteps))
            return
        der = np.asarray(der).ravel()
        if der.size != 3:
            rep.violation('apply-length:' + key, dict(spec=rec_small(rec), got=int(der.size)),
                          '%s: apply returned %d estimates from %d steps and a %d-term rule (expected 3)' % (key, der.size, nsteps, nt))
            return
        w = np.abs(rule_obj.rule(r))
        scale = np.array([np.sum(w * np.abs(np.array(seq[i:i + nt], dtype=complex))) / steps[i] ** n for i in range(3)])
        tol = 64 * EPS * kappa * np.maximum(scale, 1e-300) + 1e-300
        if d < n + mo:
            want = nfact if d == n else 0.0
            err = np.abs(der - want)
            stats['max_e2e_ratio'] = max(stats['max_e2e_ratio'], float((err / tol).max()))
            if (err > tol).any():
                rep.violation('exactness:%s:d=%d' % (key, d), dict(spec=rec_small(rec), degree=d, got=der.tolist(), want=want),
                              '%s: rule applied to the quotient of t^%d gives %s, exact derivative at 0 is %r' % (key, d, der.tolist(), want))
                return
        else:
            # residual powers: nonzero exactly on fu + j*rstep, then ~ h^(d-n)
            present = (d - fu) % rec['rstep'] == 0
            big = np.abs(der) > 1e3 * tol
            if present:
                if not big.all():
                    # residual drowned in conditioning-scaled rounding: undecidable in floating point
                    stats['residual_undecided'] += 1
                    continue
                q = np.log2(np.abs(der[:-1] / der[1:]))
                stats['residual_powers'] += 1
                if np.abs(q - (d - n)).max() > 1e-6:
                    rep.violation('residual-power:%s:d=%d' % (key, d), dict(spec=rec_small(rec), degree=d, got=der.tolist(), slopes=q.tolist()),
                                  '%s: residual of t^%d scales like h^%s, specification says h^%d' % (key, d, q.tolist(), d - n))
                    return
            elif (np.abs(der) > tol).any():
                rep.violation('residual-unexpected:%s:d=%d' % (key, d), dict(spec=rec_small(rec), degree=d, got=der.tolist()),
                              '%s: t^%d leaves a residual %s although h^%d is neither modelled nor on the Richardson lattice' % (key, d, der.tolist(), d - n))
                return
    stats['end_to_end'] += 1


def rec_small(rec):
    return {k: v for k, v in rec.items() if k not in ('sig', 'w2', 'w4', 'w32')}


def run(tier, rep):
    seed = vlib.seed_from_env()
    res = tlc_cases(tier)
    from numdifftools import finite_difference as fdm
    stats = dict(dispatch=0, signature=0, weights=0, exact_weight_rules=0, end_to_end=0, rounded_down=0,
                 skipped_illconditioned=0, illconditioned_backward_only=0, max_backward_ratio=0.0, residual_undecided=0, residual_powers=0, max_moment_ratio=0.0, max_e2e_ratio=0.0)
    rts = ratios(tier, seed)
    recs = sorted(res.records, key=lambda r: (r['m'], r['n'], r['o']))
    # pass 1: cache exactly as the import left it; pass 2: cleared cache, reverse order (same key reused both ways)
    for rec in recs:
        check_config(rec, rep, stats, rts, True)
    fdm.FD_RULES.clear()
    shared = fdm.LogRule()
    rnd = random.Random(seed)
    shuffled = list(reversed(recs))
    rnd.shuffle(shuffled)
    for r in rts[:3]:      # ratio-major: consecutive configurations ask for the same step ratio
        for rec in shuffled:
            check_config(rec, rep, stats, [r], False, shared=shared)
    sres, sstats = [], {}
    if tier != 'quick':
        import suite_traces
        sres, sstats = suite_traces.check('cache', rep)      # every rule the repository's own tests request: dispatch conforms to Rules.tla
    states, trans, per = vlib.merge_tlc([res] + sres)
    sample = rec_small(recs[len(recs) // 3])
    coverage = dict(states=states, transitions=trans, traces_validated_against_impl=stats['dispatch'],
                    samples=[sample, dict(ratios=rts)], tlc=per, exhaustive=True,
                    evaluations=stats['dispatch'] + stats['weights'] + stats['end_to_end'],
                    distinct_nontrivial=len({(r['m'], r['n'], r['o']) for r in recs if r['nterms'] > 1}),
                    rule='one case per (method, n, order) emitted by TLC; non-trivial = rule with more than one weight',
                    **stats, **sstats)
    assumptions = ['numpy/scipy arithmetic as executed', 'tolerances: moment equations min(8*eps*cond(M)*sum|w||M|, 64*eps*||M||*||w||) (backward-stable SVD; measured worst 1.6*eps*||M||*||w||), the backward bound alone once cond*eps > 1e-4; 64*eps*cond for end-to-end',
                   'step ratios: fixed grid + %d seeded random reals in (1.05,10]' % (len(rts) - 9),
                   'systems with cond(M) > 1e14 (where numpy.linalg.pinv itself starts truncating) are skipped and counted; end-to-end checks skip cond*eps > 1e-4']
    return coverage, assumptions
