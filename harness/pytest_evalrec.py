"""pytest plugin (loaded with `-p pytest_evalrec`, PYTHONPATH=/verif/harness): while the repository's own tests run,
every call of a Derivative / Gradient / Jacobian / Hessdiag / Hessian object has its user function wrapped by the
recorder of evalproj, and the projected evaluation events of the call are appended, one JSON line per call, to the
file named by VERIF_EVAL_LOG.  Nothing in /repo is changed: the wrapping is done from outside, per call."""
import json, os, threading
import numpy as np

_LOCAL = threading.local()


def _install():
    import numdifftools.core as core
    from evalproj import Recorder, project
    log = os.environ.get('VERIF_EVAL_LOG')
    if not log:
        return
    lock = threading.Lock()
    order = [('Hessian', core.Hessian), ('Hessdiag', core.Hessdiag), ('Gradient', core.Gradient), ('Jacobian', core.Jacobian), ('Derivative', core.Derivative)]

    def wrap(orig):
        def call(self, x, *args, **kwds):
            if getattr(_LOCAL, 'depth', 0) > 0:
                return orig(self, x, *args, **kwds)
            _LOCAL.depth = 1
            rec = Recorder(self.fun)
            saved = self.fun
            self.fun = rec
            raised = None
            try:
                return orig(self, x, *args, **kwds)
            except Exception as ex:
                raised = type(ex).__name__
                raise
            finally:
                self.fun = saved
                _LOCAL.depth = 0
                try:
                    cls = [nm for nm, c in order if isinstance(self, c)][0]
                    xa = np.asarray(x)
                    xi = xa if cls == 'Derivative' else (np.atleast_1d(xa).ravel() if cls == 'Gradient' else np.atleast_1d(xa))
                    steps = list(self.step(xi, self.method, self.n, self.method_order)) if int(self.n) > 0 else []
                    evs = [project(arg, xi, steps, cls == 'Derivative', a == args and k == kwds) for arg, a, k in rec.calls]
                    cfg = dict(cls=cls, m=str(self.method), n=int(self.n), o=int(self.order) if cls != 'Hessian' else 2,
                               dim=1 if cls == 'Derivative' else int(xi.shape[0]), N=len(steps), label='suite',
                               key=os.environ.get('PYTEST_CURRENT_TEST', '?').split(' ')[0], partial=1 if raised else 0)
                    line = json.dumps(dict(cfg=cfg, ev=evs, raised=raised))
                except Exception as ex:            # projection failure is reported, never hidden
                    line = json.dumps(dict(machinery='%s: %s' % (type(ex).__name__, ex), test=os.environ.get('PYTEST_CURRENT_TEST', '?')))
                with lock:
                    with open(log, 'a') as f:
                        f.write(line + '\n')
        call.__wrapped__ = orig
        return call
    for nm, c in order:
        if '__call__' in c.__dict__ and not hasattr(c.__dict__['__call__'], '__wrapped__'):
            c.__call__ = wrap(c.__dict__['__call__'])


def pytest_configure(config):
    _install()
