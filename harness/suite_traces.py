"""Run the repository's own test suite with the verification hooks on and validate what it did
against the specifications (code -> spec): every rule-cache access against Trace_Cache, every Dea
object against DeaIndex (Trace_Dea), every Taylor radius search against TaylorFFT (Trace_Taylor).
Used by the thorough tiers of C09, C14 and C17."""
import json, os, subprocess, shutil, collections
import vlib


def record(timeout=1500):
    d = vlib.run_dir('suite')
    log = os.path.join(d, 'events.ndjson')
    env = dict(os.environ)
    env[vlib.GUARD] = '1'
    env['NUMDIFFTOOLS_VERIF_LOG'] = log
    env.pop('PYTHONPATH', None)
    cmd = ['/venv/bin/python', '-m', 'pytest', '-q', '-p', 'no:cacheprovider', '--timeout=900', '--continue-on-collection-errors',
           'src/numdifftools/tests/test_numdifftools.py', 'src/numdifftools/tests/test_extrapolation.py', 'src/numdifftools/tests/test_fornberg.py',
           'src/numdifftools/tests/test_limits.py', 'src/numdifftools/tests/test_multicomplex.py', 'src/numdifftools/tests/test_step_generators.py',
           'src/numdifftools/core.py', 'src/numdifftools/finite_difference.py', 'src/numdifftools/fornberg.py']
    p = subprocess.run(cmd, cwd=vlib.REPO, env=env, stdout=subprocess.PIPE, stderr=subprocess.STDOUT, universal_newlines=True, timeout=timeout)
    evs = []
    if os.path.exists(log):
        for line in open(log):
            try:
                evs.append(json.loads(line))
            except ValueError:
                pass
    shutil.rmtree(d, ignore_errors=True)
    tail = p.stdout.strip().splitlines()[-1] if p.stdout.strip() else ''
    return evs, tail


def record_evals(timeout=1800):
    """the repository's own tests with every derivative object's user function wrapped by the evaluation recorder
    (harness/pytest_evalrec.py, nothing in /repo is changed); returns (traces, machinery problems, pytest summary line)"""
    d = vlib.run_dir('suite-eval')
    log = os.path.join(d, 'evals.ndjson')
    env = dict(os.environ)
    env['VERIF_EVAL_LOG'] = log
    env.pop(vlib.GUARD, None)
    env['PYTHONPATH'] = os.path.dirname(os.path.abspath(__file__)) + os.pathsep + os.path.join(vlib.REPO, 'src')
    cmd = ['/venv/bin/python', '-m', 'pytest', '-q', '-p', 'pytest_evalrec', '-p', 'no:cacheprovider', '--timeout=900', '--continue-on-collection-errors']
    p = subprocess.run(cmd, cwd=vlib.REPO, env=env, stdout=subprocess.PIPE, stderr=subprocess.STDOUT, universal_newlines=True, timeout=timeout)
    traces, mach = [], []
    if os.path.exists(log):
        for line in open(log):
            t = json.loads(line)
            (mach if 'machinery' in t else traces).append(t)
    shutil.rmtree(d, ignore_errors=True)
    tail = p.stdout.strip().splitlines()[-1] if p.stdout.strip() else ''
    return traces, mach, tail


def check_evals(rep):
    """C05 on the repository's own tests: every call any test makes is a trace of Trace_Eval"""
    import c05
    traces, mach, tail = record_evals()
    if mach:
        raise vlib.MachineryError('evaluation recorder failed on %d calls, e.g. %s' % (len(mach), mach[0]))
    if len(traces) < 100:
        raise vlib.MachineryError('the repository test suite produced only %d recorded calls (%s)' % (len(traces), tail))
    res, acc, bad = c05.validate(traces, tag='Suite_Eval')
    for i, t in enumerate(traces, 1):
        if i in bad:
            rep.violation('suite-trace:eval:%s' % bad[i], dict(cfg=t['cfg'], events=t['ev'][:40]), '%s violated by the evaluations of a %s/%s/n=%d call made by the repository test %s' % (bad[i], t['cfg']['cls'], t['cfg']['m'], t['cfg']['n'], t['cfg']['key']))
        elif i not in acc:
            k = c05.longest_prefix(t) if hasattr(c05, 'longest_prefix') else None
            rep.violation('suite-trace:eval:inadmissible', dict(cfg=t['cfg'], events=t['ev'][:40], first_rejected=k),
                          'a %s/%s/n=%d/order=%d call made by the repository test %s evaluates f at a point that is not a term of the stencil the specification assigns to it (event %s)' % (
                              t['cfg']['cls'], t['cfg']['m'], t['cfg']['n'], t['cfg']['o'], t['cfg']['key'], k))
    return [res], dict(suite_eval_traces=len(traces), suite_eval_events=sum(len(t['ev']) for t in traces), suite_result=tail)


def _validate(module, cfg, traces, tag):
    d = vlib.run_dir(tag + '-data')
    path = os.path.join(d, 'traces.json')
    json.dump(dict(traces=traces), open(path, 'w'))
    res = vlib.tlc(module, cfg_text=cfg, env=dict(TRACE_FILE=path), tag=tag, timeout=1800)
    shutil.rmtree(d, ignore_errors=True)
    vlib.require_ok(res)
    return res, {r['tid'] for r in res.records}


def cache_traces(evs):
    byp = collections.OrderedDict()
    for e in evs:
        if e.get('ev') in ('rule_get', 'rule_insert'):
            k = e['key']
            byp.setdefault(e['pid'], []).append(dict(ev=e['ev'], key=[repr(float(k[0])), int(k[1]), int(k[2])], parity=int(k[1]), terms=int(k[2]),
                                                     hit=bool(e.get('hit', False)), thread=e.get('thread', ''),
                                                     m=str(e.get('m', '')), n=int(e.get('n', 0)), o=int(e.get('o', 0))))
    return [dict(ev=v) for v in byp.values() if v]


def dea_traces(evs):
    byo = collections.OrderedDict()
    for e in evs:
        if e.get('ev') == 'dea' and 'obj' in e:
            byo.setdefault((e['pid'], e['obj'], e['limexp']), []).append(e)
    out = []
    for (pid, obj, lim), lst in byo.items():
        ev = [dict(n_in=0, kind='first', i=0, n_after=1), dict(n_in=1, kind='first', i=0, n_after=2)]
        for e in lst:
            ev.append(dict(n_in=e['n_in'], kind=e['kind'], i=e['i'], n_after=e['n_out'] + 1))
        out.append(dict(limexp=lim, ev=ev))
    return out


def taylor_traces(evs):
    out, cur = [], collections.defaultdict(list)
    for e in evs:
        if e.get('ev') == 'tay_iter':
            cur[(e['pid'], e.get('thread'))].append(dict(i=e['i'], converged=e['converged'], degenerate=e['degenerate'], needs_smaller=e['needs_smaller'], dirchg=e['dirchg'], numchg=e['numchg']))
        elif e.get('ev') == 'tay_end':
            k = (e['pid'], e.get('thread'))
            out.append(dict(hd=dict(max_iter=e['max_iter'], min_iter=e['min_iter'], num_extrap=e['num_extrap'], circles=e['circles'], converged=e['converged'], degenerate=e['degenerate']), ev=cur.pop(k, [])))
    return out


CACHE_CFG = "SPECIFICATION TraceSpec\nCHECK_DEADLOCK FALSE\nINVARIANT NoPendingAtEnd\nCONSTRAINT Emit\n"
DEA_CFG = "CONSTANTS\n  LimExps = {3}\n  CapOnAllConverged = TRUE\nSPECIFICATION TraceSpec\nCHECK_DEADLOCK FALSE\nINVARIANT NoIndexError\nCONSTRAINT Emit\n"
TAY_CFG = "CONSTANTS\n  MaxIters = {30}\n  NumExtraps = {3}\nSPECIFICATION TraceSpec\nCHECK_DEADLOCK FALSE\nINVARIANT FailedIffCap\nINVARIANT ConvergedMeans\nINVARIANT EnoughCircles\nCONSTRAINT Emit\n"


def check(kind, rep):
    """kind in {'cache', 'dea', 'taylor'}; returns (TLCResult list, stats dict)"""
    import copy
    evs, tail = record()
    if not evs:
        raise vlib.MachineryError('the repository test suite produced no hook events (%s)' % tail)
    module, cfg, tr = dict(cache=('Trace_Cache', CACHE_CFG, cache_traces), dea=('Trace_Dea', DEA_CFG, dea_traces), taylor=('Trace_Taylor', TAY_CFG, taylor_traces))[kind]
    tr = tr(evs)
    out = []
    if not tr and kind in ('cache', 'taylor'):
        raise vlib.MachineryError('the repository test suite produced no %s traces (%s)' % (kind, tail))
    if tr:
        res, acc = _validate(module, cfg, tr, 'Suite_' + kind)
        out.append(res)
        for j, t in enumerate(tr, 1):
            if j not in acc:
                rep.violation('suite-trace:' + kind, dict(trace={k: (v[:30] if isinstance(v, list) else v) for k, v in t.items()}, events=len(t.get('ev', []))),
                              'a %s trace recorded while running the repository\'s own tests (hooks on) is not a behaviour of spec/%s.tla' % (kind, module))
        # negative control: one corrupted field must be rejected
        bad = copy.deepcopy(tr[:1])
        ev = bad[0]['ev']
        if kind == 'cache':
            ev[len(ev) // 2]['terms'] += 1
        elif kind == 'taylor':
            ev[len(ev) // 2]['numchg'] += 1
        else:
            ev[-1]['n_after'] += 1
        _, acc2 = _validate(module, cfg, bad, 'Suite_' + kind + '_neg')
        if acc2:
            raise vlib.MachineryError('trace validation (%s) accepted a corrupted suite trace' % kind)
    return out, dict(suite_traces=len(tr), suite_events=sum(len(t.get('ev', [])) for t in tr), suite_result=tail)
