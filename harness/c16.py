"""C16 - fd_derivative is exact on polynomials at every point of any grid.

MC_FdDeriv (over spec/Fornberg.tla) enumerates (n, m, grid length incl. the minimum admissible
one, grid pattern, direction, polynomial), checks the window invariants and emits the windows, the
exact samples, the exact derivative values and the derivative polynomial.  Replay: (a) the real
fd_derivative on the TLC grids against TLC's exact values; (b) the windows the real code passes to
fd_weights (observed by wrapping that public function) against the specification's windows;
(c) the same polynomials on seeded floating-point grids (random non-uniform, uniform, nearly
uniform, tiny and huge spacings, both directions, lengths up to 60), the exact answer being the
TLC-differentiated polynomial evaluated in exact arithmetic at the float nodes."""
import random
from fractions import Fraction
import numpy as np
import vlib

EPS = np.finfo(float).eps


def observed_windows(fb, fx, x, n, m):
    calls = []
    orig = fb.fd_weights

    def spy(xw, x0=0, n=1):
        calls.append((np.array(xw, copy=True), float(x0)))
        return orig(xw, x0, n)
    fb.fd_weights = spy
    try:
        du = fb.fd_derivative(fx, x, n, m)
    finally:
        fb.fd_weights = orig
    return du, calls


def tol_for(fb, x, fx, n, lo, hi, i):
    w = fb.fd_weights_all(x[lo:hi], x[i], n)[-1]
    return 256 * EPS * float(np.sum(np.abs(w) * np.abs(fx[lo:hi]))) * (hi - lo) + 1e-300


def check_tlc_case(fb, rec, rep, stats):
    if any(q[1] == 0 for q in rec['want'] + rec['fx'] + rec['grid']):
        stats['skipped_overflow'] += 1
        return
    x = np.array([vlib.fl(q) for q in rec['grid']])
    fx = np.array([vlib.fl(q) for q in rec['fx']])
    want = np.array([vlib.fl(q) for q in rec['want']])
    n, m, N = rec['n'], rec['m'], rec['N']
    key = 'n=%d/m=%d/N=%d/pat=%d/dir=%d/deg=%d' % (n, m, N, rec['pat'], rec['dir'], len(rec['coefs']) - 1)
    try:
        du, calls = observed_windows(fb, fx, x, n, m)
    except Exception as ex:
        rep.violation('raises:' + key, dict(case=key), 'fd_derivative raised %r on an admissible grid (length %d >= %d)' % (ex, N, 2 * (n // 2 + m) + 2))
        return
    stats['calls'] += 1
    if np.shape(du) != (N,):
        rep.violation('shape:' + key, dict(case=key), 'output shape %s for input length %d' % (np.shape(du), N))
        return
    # windows: the set of (nodes, x0) used per output point
    spec_w = {}
    for i, (lo, hi) in enumerate(rec['windows']):
        spec_w[(float(x[i]), lo, hi)] = i
    seen = set()
    for xw, x0 in calls:
        i = int(np.argmin(np.abs(x - x0)))
        lo = int(np.argmin(np.abs(x - xw[0])))
        hit = (float(x[i]), lo, lo + len(xw))
        if hit not in spec_w or not np.array_equal(xw, x[lo:lo + len(xw)]):
            rep.violation('window:' + key, dict(case=key, x0=x0, nodes=xw.tolist(), spec=rec['windows'][i]),
                          '%s: point %d is differentiated from nodes [%d:%d], specification window %s' % (key, i, lo, lo + len(xw), rec['windows'][i]))
            return
        seen.add(i)
    if seen != set(range(N)):
        rep.violation('window-missing:' + key, dict(case=key, missing=sorted(set(range(N)) - seen)), '%s: no weights computed for points %s' % (key, sorted(set(range(N)) - seen)))
        return
    for i in range(N):
        lo, hi = rec['windows'][i]
        tol = tol_for(fb, x, fx, n, lo, hi, i)
        stats['max_ratio'] = max(stats['max_ratio'], abs(du[i] - want[i]) / tol)
        if not abs(du[i] - want[i]) <= tol:
            rep.violation('value:' + key, dict(case=key, i=i, got=float(du[i]), want=float(want[i]), grid=x.tolist()),
                          '%s: fd_derivative[%d] = %r, exact derivative %r' % (key, i, du[i], want[i]))
            return


def float_grids(rnd, N):
    base = np.cumsum([rnd.uniform(0.2, 1.5) for _ in range(N)])
    uni = np.arange(N) * 0.25
    near = uni * (1 + 0.0) + np.array([rnd.uniform(-1, 1) for _ in range(N)]) * 2e-6
    return [('random', base - base[N // 2]), ('uniform', uni - 3.0), ('nearly-uniform', near), ('tiny', (base - base[0]) * 2.0 ** -30),
            ('huge', (base - base[N // 2]) * 2.0 ** 12), ('decreasing', -(base - base[N // 3]))]


def exact_poly(cs, t):
    acc = Fraction(0)
    for c in reversed(cs):
        acc = acc * t + c
    return acc


def check_float_case(fb, rec, rnd, rep, stats, N):
    n, m = rec['n'], rec['m']
    cs = [vlib.frac(q) for q in rec['coefs']]
    ds = [vlib.frac(q) for q in rec['dcoefs']]
    for name, x in float_grids(rnd, N):
        span = max(abs(x[0]), abs(x[-1]), 1e-300)
        # evaluate p on the scaled variable t = x/span*3 (keeps values moderate); d^n/dx^n = (3/span)^n p^(n)(t)
        sc = Fraction(3) / Fraction(span)
        ts = [Fraction(v) * sc for v in x]
        fx = np.array([float(exact_poly(cs, t)) for t in ts])
        want = np.array([float(exact_poly(ds, t) * sc ** n) for t in ts])
        key = 'float/%s/n=%d/m=%d/N=%d/deg=%d' % (name, n, m, N, len(cs) - 1)
        try:
            x.flags.writeable = False
            fx.flags.writeable = False          # the caller's arrays are never written to
            du = fb.fd_derivative(fx, x, n, m)
        except Exception as ex:
            rep.violation('raises:' + key, dict(case=key), 'fd_derivative raised %r' % (ex,))
            continue
        stats['float_calls'] += 1
        # the same data handed over as non-contiguous views (a column of a table, every second sample, a reversed view of the reversed data)
        for vname, mk in (('column', lambda a: np.column_stack([a, a[::-1] * 0.5 + 1.0])[:, 0]), ('strided', lambda a: np.repeat(a, 2)[::2]),
                          ('reversed-view', lambda a: np.ascontiguousarray(a[::-1])[::-1])):
            try:
                dv = fb.fd_derivative(mk(fx), mk(x), n, m)
            except Exception as ex:
                rep.violation('raises:view:' + vname, dict(case=key), 'fd_derivative raised %r on %s views of its inputs' % (ex, vname))
                continue
            stats['float_calls'] += 1
            if not (np.shape(dv) == np.shape(du) and np.array_equal(np.asarray(dv), np.asarray(du), equal_nan=True)):
                j = int(np.argmax(np.asarray(dv) != np.asarray(du))) if np.shape(dv) == np.shape(du) else -1
                rep.violation('view:' + vname, dict(case=key, i=j, got=float(np.ravel(dv)[j]) if j >= 0 else None, contiguous=float(np.ravel(du)[j]) if j >= 0 else None),
                              '%s: fd_derivative on %s views of the same data gives %r at index %d, on contiguous arrays %r' % (key, vname, np.ravel(dv)[j] if j >= 0 else None, j, np.ravel(du)[j] if j >= 0 else None))
                break
        if len(HELD) < 300:
            HELD.append((key, du, np.array(du, copy=True)))     # results are values: kept ones never change
        mm = n // 2 + m
        for i in range(N):
            lo, hi = (0, 2 * mm + 2) if i < mm else ((N - 2 * mm - 2, N) if i >= N - mm else (i - mm, i + mm + 1))
            tol = tol_for(fb, x, fx, n, lo, hi, i) * 4 + 1e-9 * abs(want[i]) * 0
            stats['max_ratio_float'] = max(stats['max_ratio_float'], abs(du[i] - want[i]) / tol)
            if not abs(du[i] - want[i]) <= tol:
                rep.violation('value:' + key, dict(case=key, i=i, got=float(du[i]), want=float(want[i]), grid=x.tolist()[:20]),
                              '%s: fd_derivative[%d] = %r, exact derivative %r (tolerance %.3g)' % (key, i, du[i], want[i], tol))
                break


HELD = []


def check_all_lengths(fb, rep, stats):
    """every grid length (an implementation that works through the interior in blocks has a last block of every size)"""
    for n, m in ((1, 1), (2, 1), (1, 2), (3, 2)):
        mm = n // 2 + m
        for N in range(2 * mm + 2, 71):
            for gname, x in (('uniform', np.linspace(-1.0, 2.0, N)), ('graded', np.linspace(0.5, 2.0, N) ** 2)):
                deg = 2
                fx = 0.5 * x ** deg - x + 0.25
                want = {1: x - 1.0, 2: np.ones(N), 3: np.zeros(N)}[n]
                key = 'length/%s/N=%d/n=%d/m=%d' % (gname, N, n, m)
                try:
                    du = np.asarray(fb.fd_derivative(fx, x, n, m))
                except Exception as ex:
                    rep.violation('raises:' + key, dict(case=key), 'fd_derivative raised %r' % (ex,))
                    continue
                stats['float_calls'] += 1
                tol = 1e-7 * (1.0 + np.abs(want)) * (N ** n)
                if du.shape != (N,) or not (np.abs(du - want) <= tol).all():
                    i = int(np.argmax(np.abs(du - want) - tol)) if du.shape == (N,) else -1
                    rep.violation('length', dict(case=key, i=i, got=float(du[i]) if i >= 0 else None, want=float(want[i]) if i >= 0 else None),
                                  '%s: fd_derivative[%d] = %r for a quadratic, exact %r' % (key, i, du[i] if i >= 0 else None, want[i] if i >= 0 else None))
                    break


def check_int_grids(fb, rep, stats):
    """a grid of integer dtype (np.arange, also descending) with float samples: same numbers as the same grid in floats, float result"""
    for N in (7, 11, 20):
        for direction in (1, -1):
            xi = np.arange(1, N + 1)[::direction].copy()
            fx = np.sqrt(xi + 0.5) * 0.75
            for n in (1, 2, 3):
                for m in (1, 2):
                    if 2 * (n // 2 + m) + 2 > N:
                        continue
                    key = 'int-grid/N=%d/dir=%d/n=%d/m=%d' % (N, direction, n, m)
                    try:
                        a = fb.fd_derivative(fx, xi, n, m)
                        b = fb.fd_derivative(fx, xi.astype(float), n, m)
                    except Exception as ex:
                        rep.violation('raises:' + key, dict(case=key), 'fd_derivative raised %r on an integer-dtype grid' % (ex,))
                        continue
                    stats['float_calls'] += 2
                    if not (np.asarray(a).dtype.kind == 'f' and np.array_equal(np.asarray(a), np.asarray(b), equal_nan=True)):
                        rep.violation('int-grid', dict(case=key, got=np.asarray(a)[:4].tolist(), float_grid=np.asarray(b)[:4].tolist(), dtype=str(np.asarray(a).dtype)),
                                      '%s: on the integer-dtype grid the result is %s (dtype %s), on the same grid in floats %s' % (key, np.asarray(a)[:4].tolist(), np.asarray(a).dtype, np.asarray(b)[:4].tolist()))


def run(tier, rep):
    seed = vlib.seed_from_env()
    from numdifftools import fornberg as fb
    del HELD[:]
    res = vlib.tlc('MC_FdDeriv', cfg='MC_FdDeriv.cfg', timeout=1800)
    if res.violated:
        raise vlib.MachineryError('MC_FdDeriv violates %s\n%s' % (res.violated, res.out[-1500:]))
    vlib.require_ok(res)
    stats = dict(calls=0, float_calls=0, skipped_overflow=0, max_ratio=0.0, max_ratio_float=0.0)
    for rec in res.records:
        check_tlc_case(fb, rec, rep, stats)
    check_int_grids(fb, rep, stats)
    check_all_lengths(fb, rep, stats)
    rnd = random.Random(seed)
    pool = [r for r in res.records if r['pat'] == 1 and r['dir'] == 1]
    rnd.shuffle(pool)
    for rec in pool[:(30 if tier == 'quick' else 600)]:
        mm = rec['n'] // 2 + rec['m']
        for N in {2 * mm + 2, 2 * mm + 3, rnd.randint(2 * mm + 4, 60)}:
            check_float_case(fb, rec, rnd, rep, stats, N)
    # every (n, m) of the property's range - also those whose minimal grid is beyond the 32-bit exact family (N > 14) -
    # with the specification's polynomial shapes of degree n, 2mm-1 and 2mm (Polys / PolyDeriv interpreted in Fractions)
    import math
    for n in range(1, 7):
        for m in range(1, 5):
            mm = n // 2 + m
            for d in sorted({n, 2 * mm - 1, 2 * mm}):
                if d == n and (n + m) % 3 == 0:
                    zero = dict(n=n, m=m, coefs=[[0, 1]], dcoefs=[[0, 1]])            # identically zero samples: derivative 0, not nan
                    check_float_case(fb, zero, rnd, rep, stats, 2 * mm + 3)
                shapes = [[Fraction(1) if k % 2 == 0 else Fraction(-2) for k in range(d + 1)],
                          [Fraction(1, 2) if k == d else Fraction(3) if k == 0 else Fraction(-1) if k == 1 else Fraction(0) for k in range(d + 1)]]
                cs = shapes[(n + m + d) % 2] if tier == 'quick' else None
                for cs in ([cs] if cs else shapes):
                    ds = [cs[j + n] * (math.factorial(j + n) // math.factorial(j)) for j in range(len(cs) - n)] if len(cs) > n else [Fraction(0)]
                    rec = dict(n=n, m=m, coefs=[[c.numerator, c.denominator] for c in cs], dcoefs=[[c.numerator, c.denominator] for c in ds])
                    for N in {2 * mm + 2, rnd.randint(2 * mm + 3, 40)}:
                        check_float_case(fb, rec, rnd, rep, stats, N)
    for key, du, snap in HELD:
        if not np.array_equal(du, snap, equal_nan=True):
            rep.violation('result-overwritten', dict(case=key), '%s: the array returned by fd_derivative was changed by later calls' % key)
            break
    states, trans, per = vlib.merge_tlc([res])
    cov = dict(states=states, transitions=trans, traces_validated_against_impl=stats['calls'] + stats['float_calls'], exhaustive=True,
               samples=[{k: v for k, v in res.records[11].items()}], evaluations=stats['calls'] + stats['float_calls'],
               distinct_nontrivial=len({(r['n'], r['m'], r['N'], r['pat'], r['dir'], len(r['coefs'])) for r in res.records if len(r['coefs']) > 1}),
               rule='TLC: n 1..6 x m 1..4 x three lengths from the minimum x 4 grid patterns x 2 directions x polynomial degrees {0, n, 2mm-1, 2mm}; floats: six grid families per sampled case, lengths up to 60',
               tlc=per, **stats)
    assum = ['tolerance 256*eps*window*sum|w||f| with w the library\'s own weights on the specification window',
             'float grids: exact answer = TLC-differentiated polynomial evaluated with Fractions at the float nodes (interpretation of a specification term)',
             'windows observed by wrapping the public function fornberg.fd_weights']
    return cov, assum
