"""C04 - Hessian is symmetric and correct; Hessdiag is its diagonal.

MC_Multi emits scalar functions of n variables (quadratic, smooth, products) with their exact
Hessians (spec/MultiJets.tla, symmetric by the InvSymmetric invariant).  Replay: Hessian for the
six methods, Hessdiag for orders 2/4/6, functions returning a length-1 array, complex-valued
functions with the real-step methods, user step generators, and call histories on one object
(point updated in place, changing extra arguments, full_output on and off).  The bivariate stencil
tables themselves are bound by the evaluation traces of C05 (Trace_Eval, HessOne/HessTwo)."""
import json, os, random
import numpy as np
import vlib, multi

ENV = json.load(open(os.path.join(vlib.VERIF, 'envelopes.json')))
METHODS = ['central', 'central2', 'forward', 'backward', 'complex', 'multicomplex']
RECS = None


def tol_for(method, quadratic):
    t = ENV['hessian'][method]
    return t['quadratic'] if quadratic else t['smooth']


def run_case(case):
    vlib.use_repo()
    import numdifftools as nd
    from numdifftools.step_generators import MaxStepGenerator
    ri, method, mode, arg = case
    rec = RECS[ri]
    n = rec['n']
    x0 = multi.X0[:n]
    F = multi.comp_fun(rec['comps'][0], x0)
    try:
        if mode == 'hess':
            H, info = nd.Hessian(F, method=method, full_output=True)(np.array(x0))
            return ('ok', np.asarray(H).tolist(), np.asarray(info.error_estimate).tolist())
        if mode == 'hess-plain':
            H = nd.Hessian(F, method=method)(list(x0))
            return ('ok', np.asarray(H).tolist(), None)
        if mode == 'hess-step':
            H = nd.Hessian(F, method=method, step=MaxStepGenerator(base_step=0.5, num_steps=10))(np.array(x0))
            return ('ok', np.asarray(H).tolist(), None)
        if mode == 'hess-len1':
            H = nd.Hessian(lambda z: np.array([F(z)]), method=method)(np.array(x0))
            return ('ok', np.asarray(H).tolist(), None)
        if mode == 'hess-complexf':
            H = nd.Hessian(lambda z: F(z) * (1.0 + 0.5j), method=method)(np.array(x0))
            return ('ok', [np.real(H).tolist(), np.imag(H).tolist()], None)
        if mode == 'hessdiag':
            d, info = nd.Hessdiag(F, method=method, order=arg, full_output=True)(np.array(x0))
            H, hinfo = nd.Hessian(F, method=method if method != 'central2' else 'central', full_output=True)(np.array(x0))
            return ('ok', np.asarray(d).tolist(), np.asarray(info.error_estimate).tolist(), np.diag(H).tolist(), np.diag(np.atleast_2d(hinfo.error_estimate)).tolist())
        if mode == 'hessdiag-complexf':
            d = nd.Hessdiag(lambda z: F(z) * (1.0 + 0.5j), method=method, order=arg)(np.array(x0))
            return ('ok', [np.real(d).tolist(), np.imag(d).tolist()], None)
        if mode == 'hessdiag-sharedgen':
            # one user generator instance handed to Hessdiag objects of increasing order: each must return what it returns with a generator of its own
            from numdifftools.step_generators import MinStepGenerator
            shared = MinStepGenerator()
            same = []
            for o_ in (2, 4, 6, 2):
                a_ = nd.Hessdiag(F, method=method, order=o_, step=shared)(np.array(x0))
                b_ = nd.Hessdiag(F, method=method, order=o_, step=MinStepGenerator())(np.array(x0))
                same.append(bool(np.array_equal(np.asarray(a_), np.asarray(b_), equal_nan=True)))
            return ('ok', same, None)
        if mode == 'history':
            # one object: call, move the point IN PLACE, call with other extra arguments, call again at x0
            G = lambda z, s=1.0, t=0.0: F(z) * s * (1.0 + t)       # BOTH extra arguments change the Hessian (keyword t: factor 1 + t)
            cls = nd.Hessian if arg[0] == 'Hessian' else nd.Hessdiag
            obj = cls(G, method=method, full_output=arg[1])
            x = np.array(x0) + 0.25
            r1 = obj(x, 2.0)
            x -= 0.25                       # same array object, now at x0
            r2 = obj(x, 1.0, t=3.0)
            keep2 = np.array(r2[0] if arg[1] else r2, copy=True)
            x.flags.writeable = False               # the caller's x is never written to
            r3 = obj(x, -0.5)
            if not np.array_equal(np.asarray(r2[0] if arg[1] else r2), keep2, equal_nan=True):
                return ('raise', 'ResultOverwritten: the array returned by the second call was changed by the third call')
            pick = (lambda r: r[0]) if arg[1] else (lambda r: r)
            return ('ok', [np.asarray(pick(r2)).tolist(), np.asarray(pick(r3)).tolist()], arg)
    except Exception as ex:
        return ('raise', '%s: %s' % (type(ex).__name__, str(ex)[:160]))


def int_poly(n):
    """an integer polynomial built from products only (f of an integer point is an integer): f, exact Hessian at x"""
    def f(x):
        acc = x[0] * x[0] * x[n - 1]
        for i in range(n):
            for j in range(i, n):
                acc = acc + (i + j + 1) * x[i] * x[j]
        return acc

    def hess(x):
        H = np.zeros((n, n))
        for i in range(n):
            for j in range(i, n):
                H[i, j] += (i + j + 1)
                H[j, i] += (i + j + 1)
        H[0, 0] += 2 * x[n - 1]
        if n > 1:
            H[0, n - 1] += 2 * x[0]
            H[n - 1, 0] += 2 * x[0]
        else:
            H[0, 0] += 4 * x[0]
        return H
    return f, hess


def run_int_case(case):
    vlib.use_repo()
    import numdifftools as nd
    n, method, as_list = case
    f, hess = int_poly(n)
    xi = [1, 2, 3, -2, 4, 1][:n]
    x = list(xi) if as_list else np.array(xi)            # integers, not floats
    try:
        with np.errstate(all='ignore'):
            H = nd.Hessian(f, method=method)(x)
            d = nd.Hessdiag(f, method=method if method != 'central2' else 'central')(x)
    except Exception as ex:
        return ('raise', '%s: %s' % (type(ex).__name__, str(ex)[:160]))
    return ('ok', np.asarray(H, dtype=float).tolist(), np.asarray(d, dtype=float).tolist(), hess(np.array(xi, dtype=float)).tolist())


def run(tier, rep):
    global RECS
    seed = vlib.seed_from_env()
    cfg = open(vlib.SPEC + '/MC_Multi.cfg').read().replace('Ns = {1, 2, 3, 5, 8}', 'Ns = {1, 2, 3, 4, 5, 6}').replace('Ms = {1, 2, 3, 6}', 'Ms = {1}').replace('Ks = {0, 1, 2, 4}', 'Ks = {0}')
    res = vlib.tlc('MC_Multi', cfg_text=cfg, timeout=3000, tag='MC_Multi_hess')
    if res.violated:
        raise vlib.MachineryError('MC_Multi violates %s' % res.violated)
    vlib.require_ok(res)
    RECS = [r for r in res.records if r['what'] == 'hess']
    rnd = random.Random(seed)
    cases = []
    for ri, rec in enumerate(RECS):
        for method in METHODS:
            cases.append((ri, method, 'hess', None))
            cases.append((ri, method, 'hessdiag', rnd.choice([2, 4, 6])))
            extra = ['hess-plain', 'hess-step', 'hess-len1', 'history', 'history']
            if method not in ('complex', 'multicomplex'):
                extra.append('hess-complexf')
                cases.append((ri, method, 'hessdiag-complexf', rnd.choice([2, 4, 6])))
            if method != 'central2':
                cases.append((ri, method, 'hessdiag-sharedgen', None))
            for mode in (extra if tier != 'quick' else rnd.sample(extra, 3)):
                arg = (rnd.choice(['Hessian', 'Hessdiag']), rnd.random() < 0.5) if mode == 'history' else None
                cases.append((ri, method, mode, arg))
    outs = vlib.pool_map(run_case, cases, chunksize=4)
    nchk = 0
    worst = {}
    worst2 = {}
    for (ri, method, mode, arg), o in zip(cases, outs):
        rec = RECS[ri]
        n = rec['n']
        name = '%s n=%d kind=%s p=%d | %s %s' % (mode, n, rec['kind'], rec['p'], method, arg if arg else '')
        if o[0] == 'raise':
            rep.violation('raises:%s:%s' % (mode, method), dict(case=name), '%s raised %s' % (name, o[1]))
            continue
        nchk += 1
        x0 = multi.X0[:n]
        sc = multi.scale_of(rec, x0)
        quad = rec['kind'] in ('affine', 'quadratic')
        want = np.array([multi.vec(r) for r in rec['hess']])
        tol = tol_for(method, quad) * sc
        # smooth functions: envelopes per (method, class of call) relative to the size of the function's own second-order data
        # (scale without the (1 + |x|) factor); calibrated as 100 x the worst ratio observed on the repaired tree (envelopes.json: hessian2)
        sc2 = sc / (1.0 + max(abs(v) for v in x0))

        nb = ':n<=2' if n <= 2 else ''         # the base point has |x| <= 3 for n <= 2 and coordinates 40, 7 beyond: separate envelopes

        def tol2(cls_):
            return ENV['hessian2'][method].get(cls_ + nb, 1e300) * sc2

        def note(cls_, err_):
            if not quad:
                worst2[(method, cls_ + nb)] = max(worst2.get((method, cls_ + nb), 0.0), float(err_ / sc2))

        def check_matrix(H, label, w=want, factor=1.0, cls_='plain'):
            H = np.asarray(H, dtype=float)
            if H.shape != w.shape:
                rep.violation('shape:' + mode, dict(case=name, got=list(H.shape)), '%s: %s has shape %s, expected %s' % (name, label, H.shape, w.shape))
                return
            if not np.array_equal(H, H.T):
                rep.violation('asymmetric:' + method, dict(case=name, H=H.tolist()), '%s: %s is not exactly symmetric' % (name, label))
                return
            err = np.abs(H - w).max()
            worst[(method, quad)] = max(worst.get((method, quad), 0.0), float(err / sc))
            note(cls_, err / factor)
            if not err <= (tol if quad else tol2(cls_)) * factor:
                rep.violation('entry:%s:%s' % (mode, method), dict(case=name, got=H.tolist(), want=w.tolist(), tol=tol * factor),
                              '%s: %s %s, exact second derivatives %s (tolerance %.2g)' % (name, label, H.tolist(), w.tolist(), tol * factor))
        if mode in ('hess', 'hess-plain', 'hess-len1'):
            check_matrix(o[1], 'Hessian')
        elif mode == 'hess-step':
            check_matrix(o[1], 'Hessian with a user generator', factor=100.0 if quad else 1.0, cls_='userstep')
        elif mode == 'hess-complexf':
            check_matrix(o[1][0], 'real part of the Hessian of a complex-valued f')
            check_matrix(o[1][1], 'imaginary part of the Hessian of a complex-valued f', w=want * 0.5)
        elif mode == 'hessdiag-sharedgen':
            if not all(o[1]):
                rep.violation('history:sharedgen:%s' % method, dict(case=name, same_as_own_generator=o[1]),
                              '%s: Hessdiag objects of orders 2, 4, 6, 2 sharing ONE MinStepGenerator() differ from the same objects with a generator of their own (call %d)' % (name, o[1].index(False) + 1))
        elif mode == 'hessdiag-complexf':
            dt = tol_for(method, quad) * sc * ENV['hessian']['hessdiag_factor'] if quad else tol2('hessdiag6' if arg == 6 else 'hessdiag')
            for part, fac, lab in ((0, 1.0, 'real'), (1, 0.5, 'imaginary')):
                dd_ = np.array(o[1][part])
                if dd_.shape != (n,) or not (np.abs(dd_ - fac * np.diag(want)) <= dt).all():
                    rep.violation('entry:hessdiag-complexf:%s' % method, dict(case=name, part=lab, got=dd_.tolist(), want=(fac * np.diag(want)).tolist(), tol=dt),
                                  '%s: %s part of the Hessdiag of a complex-valued f is %s, exact %s' % (name, lab, dd_.tolist(), (fac * np.diag(want)).tolist()))
                    break
        elif mode == 'hessdiag':
            d, est, hd, hest = np.array(o[1]), np.array(o[2]), np.array(o[3]), np.array(o[4])
            if d.shape != (n,):
                rep.violation('shape:hessdiag', dict(case=name, got=list(d.shape)), '%s: Hessdiag shape %s' % (name, d.shape))
                continue
            dt = tol_for(method, quad) * sc * ENV['hessian']['hessdiag_factor'] if quad else tol2('hessdiag6' if arg == 6 else 'hessdiag')
            note('hessdiag6' if arg == 6 else 'hessdiag', np.abs(d - np.diag(want)).max())
            if not (np.abs(d - np.diag(want)) <= dt).all():
                rep.violation('entry:hessdiag:%s' % method, dict(case=name, got=d.tolist(), want=np.diag(want).tolist(), tol=dt), '%s: Hessdiag %s, exact diagonal %s' % (name, d.tolist(), np.diag(want).tolist()))
            elif not (np.abs(d - hd) <= 10 * (est + hest) + 2 * dt).all():
                rep.violation('disagree:hessdiag:%s' % method, dict(case=name, hessdiag=d.tolist(), hessian_diag=hd.tolist()), '%s: Hessdiag and diag(Hessian) disagree beyond their error estimates' % name)
        elif mode == 'history':
            cls = arg[0]
            w2 = want * 1.0 if cls == 'Hessian' else np.diag(want)
            for got, s, lab in ((o[1][0], 4.0, 'second call (extra args s=1, keyword t=3: factor 4)'), (o[1][1], -0.5, 'third call (s=-0.5)')):
                got = np.asarray(got)
                note('history', np.abs(got - s * w2).max() / max(1.0, abs(s)))
                if not np.abs(got - s * w2).max() <= (10 * tol * ENV['hessian']['hessdiag_factor'] if quad else tol2('history')) * max(1.0, abs(s)):
                    rep.violation('history:%s:%s' % (cls, method), dict(case=name, got=got.tolist(), want=(s * w2).tolist()),
                                  '%s: %s on a reused %s object returns %s, exact %s' % (name, lab, cls, got.tolist(), (s * w2).tolist()))
                    break
    # integer points with an integer-valued polynomial (dtype of f(x0) must not leak into the work arrays)
    icases = [(n, method, as_list) for n in (1, 2, 3, 5) for method in ('central', 'central2', 'forward', 'backward', 'complex', 'multicomplex') for as_list in (True, False)]
    for (n, method, as_list), o in zip(icases, vlib.pool_map(run_int_case, icases, chunksize=4)):
        name = 'integer point n=%d %s %s' % (n, method, 'list' if as_list else 'int ndarray')
        if o[0] == 'raise':
            rep.violation('raises:int:%s' % method, dict(case=name), '%s raised %s' % (name, o[1]))
            continue
        nchk += 1
        H, d, want_i = np.array(o[1]), np.array(o[2]), np.array(o[3])
        tol_i = ENV['hessian2'][method]['plain'] * max(1.0, np.abs(want_i).max())          # a cubic at small integer points
        if H.shape != want_i.shape or not np.abs(H - want_i).max() <= tol_i:
            rep.violation('int-point:hessian:%s' % method, dict(case=name, got=H.tolist(), want=want_i.tolist()), '%s: Hessian %s, exact %s' % (name, np.round(H, 6).tolist(), want_i.tolist()))
        elif not np.abs(np.ravel(d) - np.diag(want_i)).max() <= tol_i * ENV['hessian']['hessdiag_factor']:
            rep.violation('int-point:hessdiag:%s' % method, dict(case=name, got=np.ravel(d).tolist(), want=np.diag(want_i).tolist()), '%s: Hessdiag %s, exact diagonal %s' % (name, np.ravel(d).tolist(), np.diag(want_i).tolist()))
    if os.environ.get('VERIF_SURVEY'):
        for k_ in sorted(worst2):
            print('SURVEY2', k_[0], k_[1], '%.3g' % worst2[k_])
        for k_ in sorted(worst):
            print('SURVEY', k_, '%.3g' % worst[k_])
    states, trans, per = vlib.merge_tlc([res])
    cov = dict(states=states, transitions=trans, traces_validated_against_impl=nchk, exhaustive=True,
               samples=[{k_: v for k_, v in RECS[3].items() if k_ != 'comps'}], evaluations=nchk,
               distinct_nontrivial=len({(c[0], c[1], c[2]) for c in cases if RECS[c[0]]['kind'] in ('smooth', 'product')}),
               rule='TLC: n 1..6 x 4 kinds x 2 patterns scalar functions with exact Hessians; replay: 6 methods x {Hessian, Hessdiag(order), list x, user generator, length-1 array f, complex-valued f, call histories}',
               worst_error_over_scale={'%s/%s' % (k_[0], 'quadratic' if k_[1] else 'smooth'): v for k_, v in worst.items()}, tlc=per)
    assum = ['exact Hessians from spec/MultiJets.tla; tolerances from envelopes.json (hessian), relative to the local scale',
             'symmetry is checked bit for bit', 'base point with mixed magnitudes']
    return cov, assum
