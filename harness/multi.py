"""Interpretation of the multivariate function descriptions emitted by spec/MC_Multi.tla as numpy
callables (work for real, complex and bicomplex arguments), and of the exact derivatives."""
import numpy as np
import vlib

X0 = [0.5, -3.0, 40.0, 0.001, 7.0, -0.25, 100.0, 2.0]


def qf(q):
    return q[0] / q[1]


def vec(v):
    return [qf(q) for q in v]


def dot(a, u):
    acc = None
    for j, c in enumerate(a):
        if c == 0:
            continue
        t = u[j] * c
        acc = t if acc is None else acc + t
    return acc if acc is not None else u[0] * 0.0


def comp_fun(ds, x0):
    """scalar component function of x (length-n array-like) for one description"""
    c0, lin = qf(ds['c0']), vec(ds['lin'])
    Q = [vec(r) for r in ds['Q']]
    terms = [(qf(t['w']), getattr(np, t['fn']), vec(t['a'])) for t in ds['terms']]
    prods = [(qf(t['w']), getattr(np, t['fn1']), vec(t['a1']), getattr(np, t['fn2']), vec(t['a2'])) for t in ds['prod']]
    n = len(lin)

    def F(x):
        u = [x[j] - x0[j] for j in range(n)]
        acc = dot(lin, u) + c0
        for i in range(n):
            qi = dot(Q[i], u)
            acc = acc + u[i] * qi * 0.5
        for w, f, a in terms:
            acc = acc + f(dot(a, u)) * w
        for w, f1, a1, f2, a2 in prods:
            acc = acc + f1(dot(a1, u)) * f2(dot(a2, u)) * w
        return acc
    return F


def vector_fun(rec, x0):
    comps = [comp_fun(ds, x0) for ds in rec['comps']]
    m, k = rec['m'], rec['k']

    def f(x):
        vals = [c(x) for c in comps]
        if k == 0:
            return np.array(vals)
        return np.array([[vals[i * k + l] for l in range(k)] for i in range(m)])
    return f


def jac_exact(rec):
    """exact Jacobian tensor with the property's index convention [i, j(, l)]"""
    m, k, n = rec['m'], rec['k'], rec['n']
    G = np.array([vec(g) for g in rec['grads']])          # (components, n)
    if k == 0:
        return G.reshape(m, n)
    return G.reshape(m, k, n).transpose(0, 2, 1)


def scale_of(rec, x0):
    """local size of the component functions and their derivatives"""
    big = 1.0
    for ds in rec['comps']:
        for v in vec(ds['lin']) + [abs(qf(ds['c0']))] + [abs(c) for r in ds['Q'] for c in vec(r)]:
            big = max(big, abs(v))
        for t in ds['terms']:
            big = max(big, abs(qf(t['w'])) * max(abs(c) for c in vec(t['a'])) ** 2)
        for t in ds['prod']:
            big = max(big, 4 * abs(qf(t['w'])) * max(abs(c) for c in vec(t['a1']) + vec(t['a2'])) ** 2)
    return big * (1.0 + max(abs(v) for v in x0))
