"""C09, schedules: enforce TLC-chosen interleavings (spec/Threads.tla) on real threads.

Mode A: every complete interleaving emitted by TLC for the linearisation points G, E1, E2, R, I is
enforced exactly (threads block at the hook yield points and at their first two function
evaluations); the hit/miss outcome of every cache lookup must be the one the specification
predicts for that schedule, and every thread's value + record must be bit-identical to the fresh
single-threaded reference.
Mode B: up to 16 threads switched at EVERY function evaluation and hook (seeded dense schedules)."""
import threading, random, collections
import numpy as np
import vlib

XD = 0.5
XV = [0.5, 1.5, -2.0]


def f_der(x):
    return (x * x * x) * 0.5 + x * x - 2.0 * x + 1.0


def f_grad(z):
    return z[0] * z[1] * 0.5 + z[2] * z[2] * z[0] - z[1]


def f_jac(z):
    return np.array([z[0] * z[1] * 0.5 + z[2], z[2] * z[2] * z[0] - z[1] * 3.0])


FUNS = dict(Derivative=f_der, Gradient=f_grad, Jacobian=f_jac)


def build(cfg, f):
    import numdifftools as nd
    cls, m, n, o = cfg
    kw = dict(method=m, order=o, full_output=True)
    if cls == 'Derivative':
        kw['n'] = n
    return getattr(nd, cls)(f, **kw)


def xof(cfg):
    return XD if cfg[0] == 'Derivative' else np.array(XV)


def pack(res):
    if isinstance(res, Exception):
        return ('raise', type(res).__name__, str(res)[:80])
    val, info = res
    out = [('value', np.asarray(val).dtype.str, np.asarray(val).shape, np.asarray(val).tobytes())]
    for name in ('f_value', 'error_estimate', 'final_step', 'index'):
        a = np.asarray(getattr(info, name))
        out.append((name, a.dtype.str, a.shape, a.tobytes()))
    return tuple(out)


def reference(cfg):
    vlib.use_repo()
    cfg = tuple(cfg)
    try:
        return cfg, pack(build(cfg, FUNS[cfg[0]])(xof(cfg)))
    except Exception as ex:
        return cfg, pack(ex)


class Enforcer(object):
    """one thread runs at a time; who runs next is decided at yield points"""

    def __init__(self, nthreads, sched=None, rnd=None):
        self.n = nthreads
        self.go = [threading.Semaphore(0) for _ in range(nthreads)]
        self.sched = list(sched) if sched is not None else None
        self.ptr = 0
        self.rnd = rnd
        self.done = [False] * nthreads
        self.evals = [0] * nthreads
        self.failed = None
        self.lock = threading.Lock()

    def me(self):
        return int(threading.current_thread().name.split('-')[-1])

    def _next(self, me):
        if self.sched is not None:
            while self.ptr < len(self.sched):
                nxt = self.sched[self.ptr] - 1
                self.ptr += 1
                if not self.done[nxt]:
                    return nxt
            alive = [i for i in range(self.n) if not self.done[i]]
            return alive[0] if alive else None
        alive = [i for i in range(self.n) if not self.done[i]]
        return self.rnd.choice(alive) if alive else None

    def switch(self, me):
        nxt = self._next(me)
        if nxt is None or nxt == me:
            return
        self.go[nxt].release()
        if not self.go[me].acquire(timeout=20):
            self.failed = 'thread %d was never rescheduled (execution left the model)' % (me + 1)

    def finish(self, me):
        self.done[me] = True
        nxt = self._next(me)
        if nxt is not None:
            self.go[nxt].release()

    # yield points
    def hook(self, name, fields):
        t = threading.current_thread().name
        if not t.startswith('vthread-'):
            return
        me = self.me()
        if self.sched is not None:
            last = name == 'rule_insert' or (name == 'rule_get' and self.last_hit.get(me))
            if last:
                return
        self.switch(me)

    def eval_point(self):
        me = self.me()
        self.evals[me] += 1
        if self.sched is not None and self.evals[me] > 2:
            return
        self.switch(me)


def run_schedule(job):
    """executed in a worker process: one schedule, real threads"""
    vlib.use_repo()
    from numdifftools import _verif, finite_difference as fdm
    cfgs, sched, seen, seed = job
    n = len(cfgs)
    fdm.FD_RULES.clear()
    del _verif.EVENTS[:]
    enf = Enforcer(n, sched=sched, rnd=random.Random(seed))
    enf.last_hit = {}
    results = [None] * n

    def wrap(f):
        def g(z):
            enf.eval_point()
            return f(z)
        return g

    def sched_hook(name, fields):
        if name == 'rule_get':
            # the hit flag was emitted just before this yield point
            me = enf.me() if threading.current_thread().name.startswith('vthread-') else None
            if me is not None:
                evs = [e for e in _verif.EVENTS if e['ev'] == 'rule_get' and e['thread'] == threading.current_thread().name]
                enf.last_hit[me] = bool(evs and evs[-1]['hit'])
        enf.hook(name, fields)

    objs = [build(tuple(c), wrap(FUNS[c[0]])) for c in cfgs]

    def body(i):
        enf.go[i].acquire()
        try:
            results[i] = pack(objs[i](xof(cfgs[i])))
        except Exception as ex:
            results[i] = pack(ex)
        finally:
            enf.finish(i)

    _verif.SCHEDULER = sched_hook
    ths = [threading.Thread(target=body, args=(i,), name='vthread-%d' % i) for i in range(n)]
    for t in ths:
        t.start()
    first = enf._next(None)
    enf.go[first].release()
    for t in ths:
        t.join(60)
    _verif.SCHEDULER = None
    hung = [t.name for t in ths if t.is_alive()]
    hits = {}
    for e in _verif.EVENTS:
        if e['ev'] == 'rule_get' and e['thread'].startswith('vthread-'):
            hits[int(e['thread'].split('-')[-1])] = 'hit' if e['hit'] else 'miss'
    return dict(results=results, hits=[hits.get(i, 'none') for i in range(n)], failed=enf.failed, hung=hung)


def run_free(job):
    """Mode C: free-running threads (no enforcement), all released by a barrier, tiny switch interval.
    Correct code gives bit-identical results under every schedule, so this can only miss, never
    raise a false alarm."""
    vlib.use_repo()
    import sys
    from numdifftools import finite_difference as fdm
    cfgs, rounds = job
    n = len(cfgs)
    old = sys.getswitchinterval()
    sys.setswitchinterval(1e-6)
    bad = []
    try:
        for rd in range(rounds):
            fdm.FD_RULES.clear()
            objs = [build(tuple(c), FUNS[c[0]]) for c in cfgs]
            res = [None] * n
            bar = threading.Barrier(n)

            def body(i):
                bar.wait()
                try:
                    res[i] = pack(objs[i](xof(cfgs[i])))
                except Exception as ex:
                    res[i] = pack(ex)
            ths = [threading.Thread(target=body, args=(i,)) for i in range(n)]
            for t in ths:
                t.start()
            for t in ths:
                t.join(60)
            bad.append(res)
    finally:
        sys.setswitchinterval(old)
    return bad


CFG = """CONSTANTS
  NT = %d
  EmitOn = TRUE
SPECIFICATION Spec
CHECK_DEADLOCK FALSE
INVARIANT CacheCoherent
INVARIANT ResultIsPure
INVARIANT FirstMisses
CONSTRAINT Emit
"""


def run(tier, rep, seed):
    quick = tier == 'quick'
    rnd = random.Random(seed)
    tl = []
    # exhaustive for two threads (every interleaving of every pair of pool configurations)
    ex2 = vlib.tlc('Threads', cfg_text=CFG % 2, tag='Threads2', timeout=3000)
    if ex2.violated:
        raise vlib.MachineryError('Threads design violates %s\n%s' % (ex2.violated, ex2.out[-1500:]))
    vlib.require_ok(ex2)
    tl.append(ex2)
    recs = list(ex2.records)
    rnd.shuffle(recs)
    recs = recs[:(400 if quick else 6000)]
    sim3 = vlib.tlc('Threads', cfg_text=CFG % 3, simulate='num=%d' % (40 if quick else 400), depth=20, seed=seed, workers=8, tag='Threads3', timeout=3000)
    if sim3.violated or sim3.error:
        raise vlib.MachineryError('Threads simulation failed: %s %s' % (sim3.violated, (sim3.error or '')[:600]))
    tl.append(sim3)
    recs += sim3.records
    jobs = [([list(c) for c in r['cfg']], r['sched'], r['seen'], seed + i) for i, r in enumerate(recs)]
    # dense seeded schedules, 2..16 threads
    pool = [["Derivative", "central", 1, 2], ["Derivative", "complex", 1, 2], ["Gradient", "central", 1, 2], ["Derivative", "central", 1, 4],
            ["Jacobian", "forward", 1, 2], ["Derivative", "forward", 1, 2], ["Derivative", "central", 3, 2], ["Derivative", "backward", 2, 1],
            ["Gradient", "forward", 1, 2], ["Jacobian", "central", 1, 2], ["Gradient", "complex", 1, 2], ["Jacobian", "backward", 1, 2]]
    dense = []
    for k in range(60 if quick else 600):
        nt = rnd.choice([2, 3, 4, 8, 16])
        dense.append(([rnd.choice(pool) for _ in range(nt)], None, None, seed + 100000 + k))
    free = []
    for k in range(8 if quick else 40):
        c0 = rnd.choice(pool)
        # several threads asking for the SAME fresh cache key at the same moment, plus others
        free.append(([c0] * rnd.choice([4, 8]) + [rnd.choice(pool) for _ in range(4)], 6 if quick else 15))
    import c09
    allcfgs = sorted({tuple(c) for j in jobs + dense for c in j[0]} | {tuple(c) for j in free for c in j[0]})
    refs = dict(c09.fresh_map(reference, allcfgs))
    outs = vlib.pool_map(run_schedule, jobs + dense, chunksize=4)
    ncalls = 0
    for job, o in zip(jobs + dense, outs):
        cfgs, sched, seen, _ = job
        mode = 'tlc-schedule' if sched is not None else 'dense'
        if o['failed'] or o['hung']:
            rep.violation('schedule-deviation:' + mode, dict(cfgs=cfgs, sched=sched, failed=o['failed'], hung=o['hung']),
                          'under the enforced schedule %s the threads %s: %s' % (sched, cfgs, o['failed'] or ('hung: %s' % o['hung'])))
            continue
        for i, c in enumerate(cfgs):
            ncalls += 1
            if o['results'][i] != refs[tuple(c)]:
                rep.violation('thread-result:' + mode, dict(cfgs=cfgs, sched=sched, thread=i + 1),
                              'thread %d (%s) running concurrently with %s under schedule %s returns a different value/record than alone in a fresh interpreter' % (i + 1, c, [x for j, x in enumerate(cfgs) if j != i], sched if sched is not None else 'dense(seed)'))
                break
        if seen is not None and o['hits'] != list(seen):
            rep.violation('cache-trace:' + mode, dict(cfgs=cfgs, sched=sched, spec=list(seen), impl=o['hits']),
                          'schedule %s: cache lookups observed %s, specification %s' % (sched, o['hits'], list(seen)))
    fouts = vlib.pool_map(run_free, free, chunksize=1)
    nfree = 0
    for (cfgs, rounds), rr in zip(free, fouts):
        for res in rr:
            nfree += 1
            for i, c in enumerate(cfgs):
                ncalls += 1
                if res[i] != refs[tuple(c)]:
                    rep.violation('thread-result:free-running', dict(cfgs=cfgs, thread=i + 1), 'thread %d (%s) of %d free-running threads (same fresh cache key requested simultaneously) returns a different value/record than alone in a fresh interpreter' % (i + 1, c, len(cfgs)))
                    break
            else:
                continue
            break
    return dict(free_running_rounds=nfree, schedules=len(jobs) + len(dense), tlc_schedules=len(jobs), dense_schedules=len(dense), thread_calls=ncalls, tlc=tl)
