"""Interpretation of ExprMachine programs (spec/ExprMachine.tla) as numpy closures, and helpers
shared by C01 / C02 / C08 / C12 / C17 / C18.  The specification owns the exact jets; this module
only turns the action sequence of a behaviour into a callable."""
import math
from fractions import Fraction
import numpy as np

UNARY = dict(exp=np.exp, expm1=np.expm1, sin=np.sin, cos=np.cos, tan=np.tan, sinh=np.sinh, cosh=np.cosh,
             tanh=np.tanh, arctan=np.arctan, arcsin=np.arcsin, arcsinh=np.arcsinh, arctanh=np.arctanh,
             log1p=np.log1p, log=np.log, sqrt=np.sqrt)


def _carrier(k, powop):
    """the exponent as a python int (powop True / 'int'), a float ('float'), a numpy integer ('npint') or a numpy float32 ('npfloat')"""
    if powop == 'float':
        return float(k)
    if powop == 'npint':
        return np.int64(k)
    if powop == 'npfloat':
        return np.float32(k)
    return k


def make_fun(prog, c, a, powop=False, p=0.0):
    """f(x) for the program in the local variable u = c*(x - a) + p; powop: integer powers are written with the
    power operator (u**2, u**3) instead of as products; p: inner base value (0 for the specification's own programs)"""
    c = float(c)

    def f(x):
        u = (x - a) * c + p if p else (x - a) * c
        A, B = u, None
        for op in prog[1:]:
            if op in UNARY:
                A = UNARY[op](A)
            elif op == 'pow32':
                A = A ** 1.5
            elif op == 'powm12':
                A = A ** -0.5
            elif op == 'ipow2':
                A = A ** _carrier(2, powop) if powop else A * A
            elif op == 'ipow3':
                A = A ** _carrier(3, powop) if powop else A * A * A
            elif op == 'add1':
                A = A + 1.0
            elif op == 'sub_half':
                A = A - 0.5
            elif op == 'mul2':
                A = A * 2.0
            elif op == 'mul_mhalf':
                A = A * -0.5
            elif op == 'recip':
                A = 1.0 / A
            elif op == 'dup':
                B, A = A, u
            elif op == 'add':
                A = A + B
            elif op == 'sub':
                A = A - B
            elif op == 'mul':
                A = A * B
            elif op == 'div':
                A = A / B
            else:
                raise ValueError('unknown op %r' % op)
        return A
    return f


def jet_floats(jet):
    return [None if q[1] == 0 else q[0] / q[1] for q in jet]


def exact_derivative(jet, n):
    """n! * jet[n] as a float (jets are in x already: the machine carries c)"""
    q = jet[n]
    return float(Fraction(q[0], q[1]) * math.factorial(n))


def local_scale(jet, n, x, window=4):
    """sigma = (1 + |x|) * n! * max_k |jet_k| : the local size of f and its derivatives (whole jet)"""
    jf = [abs(v) for v in jet_floats(jet) if v is not None]
    return (1.0 + abs(x)) * math.factorial(n) * max(jf + [1e-300])


def radius_estimate(jet):
    """normalised root test on the specification's jet: the radius inside which no Taylor term
    exceeds the largest coefficient (a conservative 'tame radius'; inf for constants)"""
    jf = [abs(v) for v in jet_floats(jet)]
    s0 = max(jf + [1e-300])
    best = float('inf')
    for k in range(1, len(jf)):
        if jf[k] > 0:
            best = min(best, (jf[k] / s0) ** (-1.0 / k))
    return best
