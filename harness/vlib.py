"""Common machinery: run TLC, collect what the specification emitted, write evidence,
report violations / known findings.  Nothing here knows what a right answer is: answers
come out of TLC (records printed by the specifications) and are compared by the
per-property drivers."""
from __future__ import annotations
import json, os, re, shutil, subprocess, sys, time, hashlib, math, tempfile
from fractions import Fraction

VERIF = os.path.dirname(os.path.dirname(os.path.abspath(__file__)))
SPEC = os.path.join(VERIF, 'spec')
BUILD = os.environ.get('VERIF_BUILD') or os.path.join(VERIF, 'build')          # scratch override: runs against seeded changes
EVID = os.environ.get('VERIF_EVID') or os.path.join(VERIF, 'evidence')
REPO = os.environ.get('VERIF_REPO', '/repo')
GUARD = 'NUMDIFFTOOLS_VERIF'
JAR = '/opt/veriftools/tla/tla2tools.jar:/opt/veriftools/tla/CommunityModules-deps.jar'
NCPU = min(16, os.cpu_count() or 4)


class MachineryError(Exception):
    """The checker itself failed (exit 2): never reported as a VIOLATION."""


def seed_from_env(default=20261003):
    try:
        return int(os.environ.get('VERIF_SEED', default))
    except ValueError:
        return default


def use_repo():
    """Make the implementation under test importable from /repo's working tree, hooks on."""
    os.environ[GUARD] = '1'
    src = os.path.join(REPO, 'src')
    if src not in sys.path:
        sys.path.insert(0, src)
    os.environ['PYTHONPATH'] = src + os.pathsep + os.environ.get('PYTHONPATH', '')
    sys.dont_write_bytecode = True
    import warnings
    warnings.filterwarnings('ignore')


_REC = re.compile(r'<<"@@", "((?:[^"\\]|\\.)*)">>')


class TLCResult(object):
    def __init__(self):
        self.rc = None
        self.out = ''
        self.generated = 0
        self.distinct = 0
        self.depth = 0
        self.records = []
        self.violated = None
        self.error = None
        self.wall = 0.0
        self.name = ''
        self.coverage = {}

    @property
    def ok(self):
        return self.rc == 0 and self.violated is None and self.error is None

    def summary(self):
        return dict(name=self.name, states=self.distinct, generated=self.generated, depth=self.depth,
                    wall_s=round(self.wall, 2), emitted=len(self.records))


def _unescape(s):
    return json.loads('"' + s + '"')


def run_dir(tag):
    d = os.path.join(BUILD, 'run-%s-%d' % (tag, os.getpid()))
    os.makedirs(d, exist_ok=True)
    return d


def tlc(module, cfg_text=None, cfg=None, workers=None, simulate=None, depth=None, seed=None,
        env=None, timeout=900, tag=None, coverage=False, deque=False, dump=None, keep=False, cont=False):
    """Run TLC on spec/<module>.tla with a cfg (text written to scratch, or a file in spec/)."""
    tag = tag or module
    d = run_dir(tag)
    if cfg_text is not None:
        cfg_path = os.path.join(d, tag + '.cfg')
        with open(cfg_path, 'w') as f:
            f.write(cfg_text)
    else:
        cfg_path = os.path.join(SPEC, cfg or (module + '.cfg'))
    meta = os.path.join(d, 'meta-' + tag)
    cmd = ['java', '-XX:+UseParallelGC', '-Xss64m', '-Xmx8g', '-Djava.io.tmpdir=' + d]
    if deque:
        cmd.append('-Dtlc2.tool.queue.IStateQueue=StateDeque')
    cmd += ['-cp', JAR, 'tlc2.TLC', '-metadir', meta, '-noGenerateSpecTE', '-config', cfg_path]
    w = workers or NCPU
    cmd += ['-workers', str(w)]
    if simulate:
        cmd += ['-simulate', simulate]
        if depth:
            cmd += ['-depth', str(depth)]
        if seed is not None:
            cmd += ['-seed', str(seed)]
    if coverage:
        cmd += ['-coverage', '1']
    if cont:
        cmd.append('-continue')
    if dump:
        cmd += ['-dump', dump]
    cmd.append(module + '.tla')
    e = dict(os.environ)
    if env:
        e.update({k: str(v) for k, v in env.items()})
    t0 = time.time()
    res = TLCResult()
    res.name = tag
    try:
        p = subprocess.run(cmd, cwd=SPEC, env=e, stdout=subprocess.PIPE, stderr=subprocess.STDOUT,
                           timeout=timeout, universal_newlines=True)
        res.rc, res.out = p.returncode, p.stdout
    except subprocess.TimeoutExpired as ex:
        res.rc, res.out = 124, (ex.stdout or b'').decode() if isinstance(ex.stdout, bytes) else (ex.stdout or '')
        res.error = 'timeout after %ss' % timeout
    res.wall = time.time() - t0
    out = res.out
    m = re.findall(r'(\d+) states generated, (\d+) distinct states found', out)
    if m:
        res.generated, res.distinct = int(m[-1][0]), int(m[-1][1])
    m = re.search(r'depth of the complete state graph search is (\d+)', out)
    if m:
        res.depth = int(m.group(1))
    m = re.search(r'Invariant (\S+) is violated', out)
    if m:
        res.violated = m.group(1)
    m = re.search(r'(Action property|Temporal properties|property) (\S+)? ?(is|were) violated', out)
    if m and not res.violated:
        res.violated = m.group(2) or 'property'
    if 'Error:' in out and res.violated is None and res.error is None:
        i = out.index('Error:')
        res.error = out[i:i + 1500]
    seen = set()
    # TLC's workers print in a different order on every run: the records are put in a canonical order so that a seed selects the
    # same cases every time (a check has to be reproducible from (tree, tier, seed))
    for s in sorted(set(_REC.findall(out))):
        if s in seen:
            continue
        seen.add(s)
        try:
            res.records.append(json.loads(_unescape(s)))
        except Exception as ex:  # pragma: no cover
            raise MachineryError('unparsable record from TLC: %r (%s)' % (s[:200], ex))
    if coverage:
        for mm in re.finditer(r'<(\w+) line \d+, col \d+ to line \d+, col \d+ of module (\w+)>: (\d+):(\d+)', out):
            res.coverage[mm.group(1)] = (int(mm.group(3)), int(mm.group(4)))
    if not keep:
        shutil.rmtree(d, ignore_errors=True)
    return res


def require_ok(res, what=None, allow_violated=False):
    """A spec-level failure (invariant violated on the model itself, TLC error) is a machinery
    failure unless the caller handles res.violated itself (allow_violated=True)."""
    if res.violated and not allow_violated:
        raise MachineryError('%s: the model itself violates %s\n%s' % (what or res.name, res.violated, res.out[-2500:]))
    if res.error or (res.rc not in (0,) and res.violated is None):
        raise MachineryError('%s: TLC failed rc=%s\n%s' % (what or res.name, res.rc, (res.error or res.out[-3000:])))
    return res


class time_limit(object):
    """with time_limit(s): ...  raises TimeoutError in the calling (main) thread of a worker process after s seconds:
    a change to the code under test must not be able to hang a check"""

    def __init__(self, seconds):
        self.seconds = seconds

    def __enter__(self):
        import signal

        def handler(signum, frame):
            raise TimeoutError('no result within %s s' % self.seconds)
        self.old = signal.signal(signal.SIGALRM, handler)
        signal.setitimer(signal.ITIMER_REAL, self.seconds)

    def __exit__(self, *a):
        import signal
        signal.setitimer(signal.ITIMER_REAL, 0)
        signal.signal(signal.SIGALRM, self.old)
        return False


# ----------------------------------------------------------------------------- numbers
def frac(q):
    """<<num, den>> emitted by the spec -> Fraction."""
    return Fraction(int(q[0]), int(q[1]))


def fl(q):
    return float(frac(q))


def as_frac(x):
    """exact rational value of a float"""
    return Fraction(x)


# ----------------------------------------------------------------------------- findings
def flag(name):
    """feature switches of the envelope file (a section of that name exists); lets a new family be committed before it is switched on"""
    import json as _j
    try:
        return bool(_j.load(open(os.environ.get('VERIF_ENVELOPES') or os.path.join(VERIF, 'envelopes.json'))).get(name))
    except (OSError, ValueError):
        return False


def load_findings():
    p = os.path.join(VERIF, 'known_findings.json')
    if not os.path.exists(p):
        return []
    return json.load(open(p)).get('findings', [])


class Reporter(object):
    """Collects violations; known findings (status == 'known', matching key) are printed as
    KNOWN-FINDING and do not fail the check.  'fixed' entries suppress nothing."""

    def __init__(self, pid, tier):
        self.pid, self.tier = pid, tier
        self.violations = []
        self.known_hits = {}
        self.findings = [f for f in load_findings() if f.get('property') == pid and f.get('status') == 'known']
        self.t0 = time.time()
        os.makedirs(os.path.join(BUILD, 'replay'), exist_ok=True)

    def violation(self, key, case, why):
        for f in self.findings:
            if f.get('key') == key:
                self.known_hits.setdefault(key, f)
                return False
        if len(self.violations) < 2000:
            self.violations.append(dict(key=key, case=case, why=why))
        else:
            self.violations.append(None)
        return True

    def finish(self, coverage, assumptions, level='model_checking'):
        seed = seed_from_env()
        nviol = len(self.violations)
        ev = dict(property_id=self.pid, tier=self.tier, seed=seed, level=level, coverage=coverage,
                  assumptions=assumptions, wall_s=round(time.time() - self.t0, 2), violations=nviol)
        os.makedirs(EVID, exist_ok=True)
        with open(os.path.join(EVID, self.pid + '.json'), 'w') as f:
            json.dump(ev, f, indent=1, default=_jd)
            f.write('\n')
        for key, f in self.known_hits.items():
            print('KNOWN-FINDING: property=%s %s' % (self.pid, f.get('what', key)))
        if nviol:
            shown = [v for v in self.violations if v][:10]
            for i, v in enumerate(shown):
                path = os.path.join(BUILD, 'replay', '%s-%d.json' % (self.pid, i))
                with open(path, 'w') as f:
                    json.dump(dict(property=self.pid, seed=seed, tier=self.tier, **v), f, indent=1, default=_jd)
                print('VIOLATION property=%s replay=%s' % (self.pid, path))
                print('  why: %s' % (v['why'],))
            import collections
            hist = collections.Counter(v['key'].split(':')[0] for v in self.violations if v)
            print('%s: %d violation(s) by kind: %s' % (self.pid, nviol, dict(hist)))
            return 1
        print('%s: OK (%s tier, %.1fs) %s' % (self.pid, self.tier, time.time() - self.t0,
                                              json.dumps({k: v for k, v in coverage.items()
                                                          if isinstance(v, (int, float, bool))})))
        return 0


def _jd(o):
    import numpy as np
    if isinstance(o, Fraction):
        return [o.numerator, o.denominator]
    if isinstance(o, (np.integer,)):
        return int(o)
    if isinstance(o, (np.floating,)):
        return float(o)
    if isinstance(o, complex) or isinstance(o, np.complexfloating):
        return [float(o.real), float(o.imag)]
    if isinstance(o, np.ndarray):
        return o.tolist()
    if isinstance(o, (set, frozenset)):
        return sorted(o)
    return repr(o)


def merge_tlc(results):
    states = sum(r.distinct for r in results)
    trans = sum(max(r.generated, r.distinct) for r in results)
    return states, trans, [r.summary() for r in results]


class ItemTimeout(Exception):
    """a unit of replay work did not finish: reported as a violation ('hang') by run.py, never as a machinery failure"""


ITEM_LIMIT = float(os.environ.get('VERIF_ITEM_LIMIT', 600))


class _Limited(object):
    def __init__(self, fn):
        self.fn = fn

    def __call__(self, item):
        try:
            with time_limit(ITEM_LIMIT):
                return self.fn(item)
        except TimeoutError:
            raise ItemTimeout('%s(%s)' % (getattr(self.fn, '__name__', 'work'), repr(item)[:400]))


def pool_map(fn, items, chunksize=None, procs=None):
    """Run fn over items on a fork pool (the implementation is imported in the children from
    /repo's current tree).  Every item runs under a time limit: a change to the code under test that makes a call
    hang turns into ItemTimeout, which the dispatcher reports as a violation."""
    import multiprocessing as mp
    items = list(items)
    if not items:
        return []
    procs = procs or NCPU
    if procs <= 1 or len(items) < 4:
        return [_Limited(fn)(x) for x in items]
    ctx = mp.get_context('fork')
    with ctx.Pool(procs) as p:
        return p.map(_Limited(fn), items, chunksize or max(1, len(items) // (procs * 8)))
