"""Recording wrapper for user functions and the projection of every evaluation point onto the
vocabulary of spec/Trace_Eval.tla (coordinates touched, unit code, step index, real-part-exact).
Trusted base of C05 (and of the forwarding clause of C08)."""
import numpy as np

SQ = (1 + 1j) / np.sqrt(2.0)
UNITS = [(1, 1.0), (2, -1.0), (3, 2.0), (4, -2.0), (5, 1j), (6, -1j), (7, SQ), (8, -SQ), (9, 1 + 1j), (10, -1 + 1j)]


class Recorder(object):
    """wraps f; records (argument, args, kwds) of every call"""

    def __init__(self, f):
        self.f = f
        self.calls = []

    def __call__(self, x, *args, **kwds):
        from numdifftools.multicomplex import Bicomplex
        if isinstance(x, Bicomplex):
            self.calls.append((('bi', np.array(x.z1, copy=True), np.array(x.z2, copy=True)), args, dict(kwds)))
        else:
            self.calls.append((('c', np.array(x, copy=True)), args, dict(kwds)))
        return self.f(x, *args, **kwds)


def _match(delta, steps_c, tol=1e-6):
    """(step index 1-based, unit code) with delta = unit * steps_c[i], or None"""
    best = None
    for i, h in enumerate(steps_c):
        if h == 0:
            continue
        r = delta / h
        for code, u in UNITS:
            if abs(r - u) <= tol * abs(u):
                if best is None:
                    best = (i + 1, code)
                break
        if best:
            break
    return best


def project(arg, x, steps, elementwise, token_ok):
    """event record for one evaluation.
    x: the array the class works on (flattened for coordinate classes); steps: list of generated
    steps (scalars or arrays broadcastable to x); elementwise: Derivative semantics (every element
    is its own scalar problem and all move together)."""
    x = np.asarray(x)
    if arg[0] == 'bi':
        z1, z2 = np.asarray(arg[1]), np.asarray(arg[2])
    else:
        z1, z2 = np.asarray(arg[1]), None
    ev = dict(c=[], u=[], i=0, re=0, jc=[], ji=0, tok=1 if token_ok else 0)
    if z1.shape != x.shape:
        try:
            z1 = np.broadcast_to(z1, x.shape)
        except ValueError:
            ev.update(c=[1], u=[0])
            return ev
    ev['re'] = 1 if np.array_equal(np.real(z1), np.real(x)) and not np.iscomplexobj(x) else 0
    delta = (z1 - x).ravel()
    S = [np.broadcast_to(np.asarray(s, dtype=complex), x.shape).ravel() for s in steps]
    nz = np.flatnonzero(delta != 0)
    if elementwise:
        if nz.size:
            ms = set()
            for c in range(delta.size):
                m = _match(delta[c], [s[c] for s in S])
                ms.add(m)
            if len(ms) == 1 and None not in ms:
                i, code = ms.pop()
                ev.update(c=[1], u=[code], i=i)
            else:
                ev.update(c=[1], u=[0], i=0)
    else:
        idx = set()
        for c in nz:
            m = _match(delta[c], [s[c] for s in S])
            ev['c'].append(int(c) + 1)
            if m is None:
                ev['u'].append(0)
            else:
                ev['u'].append(m[1])
                idx.add(m[0])
        if len(idx) == 1:
            ev['i'] = idx.pop()
        elif len(idx) > 1:
            ev['u'] = [0] * len(ev['u'])
    if z2 is not None:
        d2 = np.broadcast_to(z2, x.shape).ravel()
        nz2 = np.flatnonzero(d2 != 0)
        if elementwise:
            if nz2.size:
                ms = {_match(d2[c], [s[c] for s in S]) for c in range(d2.size)}
                if len(ms) == 1 and None not in ms and next(iter(ms))[1] == 1:
                    ev.update(jc=[1], ji=next(iter(ms))[0])
                else:
                    ev.update(jc=[1], ji=0)
        else:
            jis = set()
            for c in nz2:
                m = _match(d2[c], [s[c] for s in S])
                ev['jc'].append(int(c) + 1)
                jis.add(m[0] if (m is not None and m[1] == 1) else 0)
            if len(jis) == 1:
                ev['ji'] = jis.pop()
    return ev
