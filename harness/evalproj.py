"""Recording wrapper for user functions and the projection of every evaluation point onto the
vocabulary of spec/Trace_Eval.tla (coordinates touched, unit code, step index, real-part-exact).
Trusted base of C05 (and of the forwarding clause of C08)."""
import numpy as np

SQ = (1 + 1j) / np.sqrt(2.0)
UNITS = [(1, 1.0), (2, -1.0), (3, 2.0), (4, -2.0), (5, 1j), (6, -1j), (7, SQ), (8, -SQ), (9, 1 + 1j), (10, -1 + 1j)]


class Recorder(object):
    """wraps f; records (argument, args, kwds) of every call"""

    def __init__(self, f):
        self.f = f
        self.calls = []

    def __call__(self, x, *args, **kwds):
        from numdifftools.multicomplex import Bicomplex
        if isinstance(x, Bicomplex):
            self.calls.append((('bi', np.array(x.z1, copy=True), np.array(x.z2, copy=True)), args, dict(kwds)))
        else:
            self.calls.append((('c', np.array(x, copy=True)), args, dict(kwds)))
        return self.f(x, *args, **kwds)


def _matches(delta, steps_c, tol=1e-6):
    """ALL (step index 1-based, unit code) with delta = unit * steps_c[i]: the decomposition is not unique when a unit
    ratio coincides with the step ratio (2 * h[i+1] = h[i] for ratio 2); the trace specification resolves the choice"""
    out = []
    for i, h in enumerate(steps_c):
        if h == 0:
            continue
        if np.imag(h) == 0:
            h = abs(np.real(h))      # directions are judged relative to x, not to the sign the library gave its step ("forward never below x")
        r = delta / h
        for code, u in UNITS:
            if abs(r - u) <= tol * abs(u):
                out.append((i + 1, code))
                break
    return out


def project(arg, x, steps, elementwise, token_ok):
    """event record for one evaluation.
    x: the array the class works on (flattened for coordinate classes); steps: list of generated
    steps (scalars or arrays broadcastable to x); elementwise: Derivative semantics (every element
    is its own scalar problem and all move together).
    c, u, i, jc, ji describe the first consistent decomposition; `alts` lists every consistent one as
    [i, [u per touched coordinate], ji]."""
    x = np.asarray(x)
    if arg[0] == 'bi':
        z1, z2 = np.asarray(arg[1]), np.asarray(arg[2])
    else:
        z1, z2 = np.asarray(arg[1]), None
    ev = dict(c=[], u=[], i=0, re=0, jc=[], ji=0, tok=1 if token_ok else 0, alts=[])
    if z1.shape != x.shape:
        try:
            z1 = np.broadcast_to(z1, x.shape)
        except ValueError:
            ev.update(c=[1], u=[0])
            return ev
    ev['re'] = 1 if np.array_equal(np.real(z1), np.real(x)) else 0          # the real part of the argument is bitwise that of x
    delta = (z1 - x).ravel()
    S = [np.broadcast_to(np.asarray(s, dtype=complex), x.shape).ravel() for s in steps]
    nz = np.flatnonzero(delta != 0)
    main = []                    # consistent (i, [u...]) decompositions of the first component
    if elementwise:
        if nz.size:
            common = None
            for c in range(delta.size):
                ms = set(_matches(delta[c], [s[c] for s in S]))
                common = ms if common is None else common & ms
            ev['c'] = [1]
            main = [(i, [code]) for i, code in sorted(common or ())]
    else:
        # a coordinate is an index along the FIRST axis of x (for a 2-d x every row x[i] is a batch of points that moves
        # together: the documented vectorised use of Jacobian); all moved elements of a row must share (step, unit)
        rowlen = int(x.size // x.shape[0]) if x.ndim > 1 else 1
        rows = {}
        for c in nz:
            rows.setdefault(int(c) // rowlen, []).append(set(_matches(delta[c], [s[c] for s in S])))
        cands = []
        for r in sorted(rows):
            ev['c'].append(r + 1)
            cands.append(dict(set.intersection(*rows[r])))
        if cands:
            for i in sorted(set.intersection(*[set(d) for d in cands])):
                main.append((i, [d[i] for d in cands]))
    jparts = [0]
    if z2 is not None:
        d2 = np.broadcast_to(z2, x.shape).ravel()
        nz2 = np.flatnonzero(d2 != 0)
        if nz2.size:
            if elementwise:
                ev['jc'] = [1]
                sets = [{i for i, code in _matches(d2[c], [s[c] for s in S]) if code == 1} for c in range(d2.size)]
            else:
                rowlen = int(x.size // x.shape[0]) if x.ndim > 1 else 1
                ev['jc'] = sorted({int(c) // rowlen + 1 for c in nz2})
                sets = [{i for i, code in _matches(d2[c], [s[c] for s in S]) if code == 1} for c in nz2]
            jparts = sorted(set.intersection(*sets)) or [0]
    if ev['c']:
        if main:
            ev['alts'] = [[i, u, j] for i, u in main for j in jparts]
        else:
            ev['u'] = [0] * len(ev['c'])
    elif ev['jc']:
        ev['alts'] = [[0, [], j] for j in jparts]
    if ev['alts']:
        ev['i'], ev['u'], ev['ji'] = ev['alts'][0][0], list(ev['alts'][0][1]), ev['alts'][0][2]
    return ev
