"""C09 - results depend only on (function, point, configuration), not on history.

spec/History.tla models the state that survives a call (rule-cache key set, per-generator
remembered state, per-object n/order/method/generator).  TLC (a) checks the design invariants
exhaustively to a bounded depth, (b) generates operation histories of length 12 by simulation,
each step carrying the specification's expected projected state.  Every history is replayed into
the real library in one interpreter; after each operation the real projected state is compared
with the specification's, and every Call's value and full_output record is compared BIT FOR BIT
with a reference computed in a fresh interpreter process for that configuration alone.
(c) Threads: interleavings of concurrent calls on disjoint objects are chosen by TLC
(spec/Threads.tla) and enforced at the hook yield points."""
import json, os, random, collections, threading, time
import numpy as np
import vlib

XVALS = {1: 0.5, 2: [1.0, 2.0], 3: -1.25, 4: [[0.25, 3.0], [10.0, -0.5]]}


def fun(x):
    return (x * x * x) * 0.5 + x * x - 2.0 * x + 1.0


def make_gen(g):
    from numdifftools.step_generators import MinStepGenerator, MaxStepGenerator
    if g == 1:
        return MaxStepGenerator(base_step=1.0, num_steps=12)
    if g == 2:
        return MinStepGenerator(base_step=2.0 ** -10, step_ratio=2.0, num_steps=10)
    if g == 3:
        return MaxStepGenerator(base_step=1.0, step_ratio=1.64, num_steps=12)
    if g == 4:
        return MinStepGenerator(base_step=2.0 ** -13, step_ratio=2.0, num_steps=2)
    if g == 5:
        return MaxStepGenerator(base_step=1.0, step_ratio=1.3, num_steps=12)
    if g == 6:
        return MinStepGenerator(base_step=2.0 ** -8, step_ratio=1.3, num_steps=10)
    if g == 7:
        return MaxStepGenerator(base_step=1.0, step_ratio=2.0, num_steps=20)       # enough steps for rules of 16 and more terms
    return None


def pack(res):
    """hashable, bit-exact image of a call outcome"""
    if isinstance(res, Exception):
        return ('raise', type(res).__name__, str(res)[:80])
    val, info = res
    out = [('value', np.asarray(val).dtype.str, np.asarray(val).shape, np.asarray(val).tobytes())]
    for name in ('f_value', 'error_estimate', 'final_step', 'index'):
        a = np.asarray(getattr(info, name))
        out.append((name, a.dtype.str, a.shape, a.tobytes()))
    return tuple(out)


def describe(p):
    if p[0] == 'raise':
        return p
    return [(name, np.frombuffer(b, dtype=dt).tolist()[:4]) for name, dt, sh, b in p]


def reference(sig):
    """evaluated in a process that has done nothing else with the library"""
    vlib.use_repo()
    import numdifftools as nd
    m, n, o, g, x = sig
    try:
        d = nd.Derivative(fun, step=make_gen(g), method=m, n=n, order=o, full_output=True)
        return sig, pack(d(np.array(XVALS[x]) if isinstance(XVALS[x], list) else XVALS[x]))
    except Exception as ex:
        return sig, pack(ex)


def nested_fun(inner):
    return lambda t: fun(t) + 0.125 * inner(t)[0]


def reference_nested(sig):
    """the nested computation with two objects that share nothing, in a fresh interpreter"""
    vlib.use_repo()
    import numdifftools as nd
    (m, n, o, g, x), (im, in_, io, ig) = sig
    try:
        inner = nd.Derivative(fun, step=make_gen(ig), method=im, n=in_, order=io, full_output=True)
        d = nd.Derivative(nested_fun(inner), step=make_gen(g), method=m, n=n, order=o, full_output=True)
        return sig, pack(d(xval(x)))
    except Exception as ex:
        return sig, pack(ex)


def fresh_map(fn, items):
    import multiprocessing as mp
    ctx = mp.get_context('fork')
    with ctx.Pool(vlib.NCPU, maxtasksperchild=1) as p:
        return p.map(fn, items, 1)


def xval(x):
    v = XVALS[x]
    return np.array(v) if isinstance(v, list) else v


def exact(r):
    return (r + 1.0) - 1.0


def replay_histories(batch):
    """many histories in one interpreter"""
    vlib.use_repo()
    import numdifftools as nd
    from numdifftools import finite_difference as fdm
    refs, hists = batch
    out = []
    for hid, hist in hists:
        fdm.FD_RULES.clear()          # the specification's Init: empty cache
        objs, shared = {}, {}
        bad = None
        ncalls = 0
        for step, e in enumerate(hist):
            op = e['op']
            kind = op['op']
            try:
                if kind == 'construct':
                    g = op['gen']
                    if g and g not in shared:
                        shared[g] = make_gen(g)
                    kw = dict(step_ratio=4.0, num_steps=3) if op.get('kw') else {}      # options next to a generator instance: not the generator's business
                    objs[op['obj']] = nd.Derivative(fun, step=shared.get(g), method=op['m'], n=op['n'], order=op['o'], full_output=True, **kw)
                elif kind == 'setn':
                    objs[op['obj']].n = op['v']
                elif kind == 'setorder':
                    objs[op['obj']].order = op['v']
                elif kind == 'setmethod':
                    objs[op['obj']].method = op['v']
                elif kind == 'clear':
                    fdm.FD_RULES.clear()
                elif kind == 'flood':
                    for k_ in range(op['count']):
                        fdm.LogRule(n=1 + k_ % 2, method=('forward', 'central', 'backward')[k_ % 3], order=2 + 2 * (k_ % 2)).rule(1.05 + 0.0625 * k_)
                elif kind == 'prepopulate':
                    fdm.LogRule(n=op['n'], method=op['m'], order=op['o']).rule(op['ratio'][0] / op['ratio'][1])
                elif kind == 'nested':
                    d, inner = objs[op['obj']], objs[op['inner']]
                    if (d.method, d.n, d.order, inner.method, inner.n, inner.order) != (op['m'], op['n'], op['o'], op['im'], op['in'], op['io']):
                        bad = (step, 'object projection', 'objects report %r, specification %r' % ((d.method, d.n, d.order, inner.method, inner.n, inner.order), op))
                        break
                    keep = d.fun
                    d.fun = nested_fun(inner)
                    try:
                        got = pack(d(xval(op['x'])))
                    except Exception as ex:
                        got = pack(ex)
                    finally:
                        d.fun = keep
                    ncalls += 1
                    sig = ((op['m'], op['n'], op['o'], op['gen'], op['x']), (op['im'], op['in'], op['io'], op['igen']))
                    if got != refs[sig]:
                        bad = (step, 'result:nested', 'object %r differentiating a function that calls object %r (same interpreter, generators %r/%r) returns %s; two unshared objects in a fresh interpreter give %s' % (
                            sig[0][:3], sig[1][:3], op['gen'], op['igen'], describe(got), describe(refs[sig])))
                        break
                elif kind == 'call':
                    d = objs[op['obj']]
                    if (d.method, d.n, d.order) != (op['m'], op['n'], op['o']):
                        bad = (step, 'object projection', 'object reports (method, n, order) = %r, specification %r' % ((d.method, d.n, d.order), (op['m'], op['n'], op['o'])))
                        break
                    try:
                        got = pack(d(xval(op['x'])))
                    except Exception as ex:
                        got = pack(ex)
                    ncalls += 1
                    sig = (op['m'], op['n'], op['o'], op['gen'], op['x'])
                    if got != refs[sig]:
                        bad = (step, 'result', 'call %r returns %s but a fresh interpreter gives %s' % (sig, describe(got), describe(refs[sig])))
                        break
            except Exception as ex:
                bad = (step, 'raises', '%s raised %s: %s' % (kind, type(ex).__name__, ex))
                break
            # projected state after the operation
            try:
                keys = sorted((float(k[0]), int(k[1]), int(k[2])) for k in fdm.FD_RULES)
            except (TypeError, ValueError, IndexError):
                keys = None          # the cache is not keyed by (step_ratio, parity, num_terms) tuples: projection unavailable, results still compared
            want = sorted((exact(k[0][0] / k[0][1]), k[1], k[2]) for k in e['cache'])
            if keys is not None and keys != want and not e.get('nocache'):
                bad = (step, 'cache', 'rule cache holds keys %r, specification %r' % (keys, want))
                break
            gens = e['gens']
            gd = {int(k): v for k, v in gens.items()} if isinstance(gens, dict) else {}
            for gid, st in gd.items():
                gen = shared.get(gid) if gid < 10 else (objs[gid - 10].step if (gid - 10) in objs else None)
                if gen is None:
                    continue
                s = gen._state
                real = (np.asarray(s.x).tolist() if st[0] else None, s.method, int(s.n), int(s.order))
                spec = (np.asarray(xval(st[0])).tolist() if st[0] else None, st[1], st[2], st[3])
                if real != spec:
                    bad = (step, 'generator state', 'generator %d remembers %r, specification %r' % (gid, real, spec))
                    break
            if bad:
                break
        out.append((hid, bad, ncalls))
    return out


SIM_CFG = """CONSTANTS
  NObj = 3
  MaxOps = 12
  EmitOn = TRUE
SPECIFICATION Spec
CHECK_DEADLOCK FALSE
INVARIANT ResultIsPure
INVARIANT GenRemembersLastCall
INVARIANT CacheKeysWellFormed
INVARIANT RestoreIsIdentity
CONSTRAINT Emit
"""


def run(tier, rep):
    seed = vlib.seed_from_env()
    quick = tier == 'quick'
    # (a) exhaustive design check
    ex_cfg = SIM_CFG.replace('NObj = 3', 'NObj = 2').replace('MaxOps = 12', 'MaxOps = %d' % (4 if quick else 5)).replace('EmitOn = TRUE', 'EmitOn = FALSE').replace('CONSTRAINT Emit', 'CONSTRAINT DepthBound\nVIEW view')
    exh = vlib.tlc('History', cfg_text=ex_cfg, tag='History_exh', timeout=3000)
    if exh.violated:
        raise vlib.MachineryError('History design violates %s\n%s' % (exh.violated, exh.out[-1500:]))
    vlib.require_ok(exh)
    # (b) histories by simulation
    num = 120 if quick else 2500       # per worker
    sim = vlib.tlc('History', cfg_text=SIM_CFG, simulate='num=%d' % num, depth=13, seed=seed, workers=8, tag='History_sim', timeout=3000)
    if sim.violated or sim.error:
        raise vlib.MachineryError('History simulation failed: %s %s' % (sim.violated, (sim.error or '')[:800]))
    hists = [(i, r['hist']) for i, r in enumerate(sim.records)]
    if len(hists) < 100:
        raise vlib.MachineryError('too few histories generated: %d' % len(hists))
    # flooded cache: the Prepopulate action of the specification applied 80 times with distinct ratios between two calls of the same
    # objects (a behaviour of History with a larger MaxOps; the key-set projection is not compared in these, only the results)
    def _ev(op):
        return dict(op=op, cache=[], gens={}, nocache=True)
    for fi, (cfgs, count) in enumerate(((((('central', 1, 2), ('forward', 1, 2))), 80), ((('central', 2, 2), ('backward', 2, 1), ('complex', 1, 2)), 70))):
        h_ = []
        for j_, (m_, n_, o_) in enumerate(cfgs, 1):
            h_.append(_ev(dict(op='construct', obj=j_, cfg=0, gen=0, kw=0, m=m_, n=n_, o=o_)))
            h_.append(_ev(dict(op='call', obj=j_, x=1 + j_ % 3, m=m_, n=n_, o=o_, gen=0, key=[], hit=False)))
        h_.append(_ev(dict(op='flood', count=count)))
        for j_, (m_, n_, o_) in enumerate(cfgs, 1):
            h_.append(_ev(dict(op='call', obj=j_, x=1 + j_ % 3, m=m_, n=n_, o=o_, gen=0, key=[], hit=True)))
            h_.append(_ev(dict(op='call', obj=j_, x=2 + j_ % 2, m=m_, n=n_, o=o_, gen=0, key=[], hit=True)))
        hists.append((100000 + fi, h_))
    # rules with 16 and more terms next to the one-term default rules of the same ratio (any packing of the cache key must keep them apart)
    for fi, order_ in enumerate((((('forward', 1, 17, 7), ('central', 1, 2, 2), ('backward', 1, 17, 7), ('central', 2, 2, 2))), ((('central', 1, 2, 2), ('forward', 1, 17, 7), ('central', 1, 4, 2), ('forward', 1, 18, 7))))):
        h_ = []
        for j_, (m_, n_, o_, g_) in enumerate(order_, 1):
            h_.append(_ev(dict(op='construct', obj=j_, cfg=0, gen=g_, kw=0, m=m_, n=n_, o=o_)))
            h_.append(_ev(dict(op='call', obj=j_, x=1 + j_ % 2, m=m_, n=n_, o=o_, gen=g_, key=[], hit=False)))
        for j_, (m_, n_, o_, g_) in enumerate(order_, 1):
            h_.append(_ev(dict(op='call', obj=j_, x=2, m=m_, n=n_, o=o_, gen=g_, key=[], hit=True)))
        hists.append((100010 + fi, h_))
    sigs = sorted({(e['op']['m'], e['op']['n'], e['op']['o'], e['op']['gen'], e['op']['x']) for _, h in hists for e in h if e['op']['op'] == 'call'})
    nsigs = sorted({((o['m'], o['n'], o['o'], o['gen'], o['x']), (o['im'], o['in'], o['io'], o['igen'])) for _, h in hists for e in h for o in [e['op']] if o['op'] == 'nested'})
    refs = dict(fresh_map(reference, sigs))
    refs.update(fresh_map(reference_nested, nsigs))
    # a second, independent fresh evaluation of every reference (the reference itself must be reproducible)
    refs2 = dict(fresh_map(reference, list(reversed(sigs))))
    for s, pk in refs.items():
        if pk[0] == 'raise' and pk[1] != 'ValueError':
            rep.violation('reference-raises', dict(sig=repr(s), error=list(pk)), 'configuration %r raises %s: %s in a fresh interpreter (only ValueError - too few steps for the rule - is an expected outcome)' % (s, pk[1], pk[2]))
    for s in sigs:
        if refs[s] != refs2[s]:
            rep.violation('nondeterministic-fresh', dict(sig=list(s)), 'two fresh interpreters disagree on %r' % (s,))
    rnd = random.Random(seed)
    rnd.shuffle(hists)
    per = 25
    batches = [(refs, hists[i:i + per]) for i in range(0, len(hists), per)]
    out = vlib.pool_map(replay_histories, batches, chunksize=1)
    ncalls = 0
    hd = dict(hists)
    for res in out:
        for hid, bad, nc in res:
            ncalls += nc
            if bad:
                step, kind, why = bad
                ops = [e['op'] for e in hd[hid][:step + 1]]
                rep.violation('%s' % kind, dict(history=ops, step=step), 'after %d operations (%s): %s' % (step + 1, ' ; '.join('%s%s' % (o['op'], [o.get(k) for k in ('obj', 'v', 'x') if k in o]) for o in ops[-4:]), why))
    # (c) threads
    import c09_threads
    tstats = c09_threads.run(tier, rep, seed)
    sres, sstats = [], {}
    if not quick:
        import suite_traces
        sres, sstats = suite_traces.check('cache', rep)      # the repository's own tests, hooks on: the rule cache behaves as a set of keys
    states, trans, perr = vlib.merge_tlc([exh, sim] + sres + tstats.pop('tlc'))
    opsc = collections.Counter(e['op']['op'] for _, h in hists for e in h)
    cov = dict(**sstats, states=max(states, 1), transitions=max(trans, 1), traces_validated_against_impl=len(hists) + tstats['schedules'],
               histories=len(hists), calls_compared_bitwise=ncalls, distinct_call_signatures=len(sigs), distinct_nested_signatures=len(nsigs), ops=dict(opsc),
               samples=[[e['op'] for e in hists[0][1]]], evaluations=ncalls + tstats['thread_calls'],
               distinct_nontrivial=len({json.dumps([e['op'] for e in h], sort_keys=True) for _, h in hists if sum(1 for e in h if e['op']['op'] == 'call') >= 2}),
               rule='TLC simulation of spec/History.tla, histories of 12 operations over 3 objects / 12 configurations / 2 shared generators; non-trivial = at least two calls',
               tlc=perr, **tstats)
    assum = ['reference = the same configuration evaluated alone in a fresh interpreter process (fork before numdifftools is imported)',
             'test function: exactly rounded polynomial arithmetic; four x values (two scalars, 1-d and 2-d arrays)',
             'thread schedules are enforced at hook yield points (rule-cache lookup/insert, generator state) and at every function evaluation']
    return cov, assum
