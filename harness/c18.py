"""C18 - Limit and Residue recover removable singularities and poles.

spec/LimitRes.tla models Limit.__call__ over an array of regular and singular points (Eval, Find,
Lim, Put) with the invariants RegularUntouched and PutIndexBijection, and enumerates layouts x
method x path x order x step ratio x kernel.  Replay: f(z) = g(z) * s(z - P) * s(z - Q) with g an
ExprMachine program (g(P) is the exact jet value), the regular factor evaluated by numpy; real and
complex placements; every evaluation point is recorded to check the sign (method) and the path;
Residue with pole orders 1..3, both methods, default and explicit order."""
import json, os, random, math
import numpy as np
import vlib, exprs

ENV = json.load(open(os.path.join(vlib.VERIF, 'envelopes.json')))
RECS = None
PROGS = None

def _log1p_over_w(w):
    """log(1+w)/w evaluated to rounding also for COMPLEX w near 0 (numpy's complex log1p loses digits there, which would make
    the test function - not the library - inaccurate): alternating series below |w| = 0.1"""
    w = np.asarray(w)
    with np.errstate(all='ignore'):
        small = np.abs(w) < 0.1
        ws = np.where(small, w, 0.05)
        ser = np.zeros_like(ws, dtype=np.result_type(ws, float))
        for k in range(24, -1, -1):
            ser = ser * (-ws) + 1.0 / (k + 1)
        big = np.log1p(np.where(small, 0.5, w)) / np.where(small, 0.5, w)
        out = np.where(small, ser, big)
        return np.where(w == 0, np.nan, out) if np.ndim(out) else (np.nan if w == 0 else out[()])


KERN = dict(sinc=lambda w: np.sin(w) / w, expm1w=lambda w: np.expm1(w) / w, log1pw=_log1p_over_w, wsin=lambda w: w / np.sin(w))


def run_case(case):
    vlib.use_repo()
    from numdifftools.limits import Limit
    ri, pi, placement, seed = case
    r = RECS[ri]
    cfg = r['cfg']
    pr = PROGS[pi]
    rnd = random.Random(seed)
    P, Q = placement
    ksc = 0.125 if cfg['kernel'] in ('log1pw', 'wsin') else 1.0      # s(ksc * w): the kernel's disc of analyticity has radius 8 (log1p) / 25 (w/sin w), wider than any default path
    s = (lambda w, k_=KERN[cfg['kernel']]: k_(w * ksc)) if ksc != 1.0 else KERN[cfg['kernel']]
    g = exprs.make_fun(pr['prog'], 1.0, P)                 # g(P) = jet[0] exactly
    gP = exprs.jet_floats(pr['jet'])[0]
    has_q = 'Q' in r['layout']
    shift = 0.3 if cfg['kernel'] != 'wsin' else 0.2        # keep the second kernel regular at the first point

    cfac = (1.0 + 0.5j) if seed % 2 else 1.0          # g analytic but not real on the real axis for half of the cases

    def f(z):
        with np.errstate(all='ignore'):
            out = g(z) * s(z - P) * cfac
            if has_q:
                out = out * KERN['sinc']((z - Q) * shift)
            return out
    pts = dict(P=P, Q=Q, R=P + 0.37, S=P - 0.21 + (0.1j if isinstance(P, complex) else 0.0))
    z = np.array([pts[p] for p in r['layout']])
    seen = []

    first = []
    left = [False]

    def fw(zz):
        seen.append(np.array(zz, copy=True))
        out = f(zz)
        if not first:
            first.append(np.array(out, copy=True))
        elif np.isnan(out).any():
            left[0] = True          # a step left the domain of the kernel (e.g. log1p below -1)
        return out
    # the ratio is a real number: for odd seeds it is given as a Python int
    opts = dict(method=cfg['method'], order=cfg['order'], full_output=True, step_ratio=(int(cfg['ratio']) if seed % 4 == 1 else float(cfg['ratio'])), path=cfg['path'])
    try:
        with np.errstate(all='ignore'):
            val, info = Limit(fw, **opts)(z if len(z) > 1 else z[0])
    except Exception as ex:
        return dict(error='%s: %s' % (type(ex).__name__, str(ex)[:160]))
    # the same points in other guises: without full_output (values must not depend on whether the record is asked for),
    # and as two-dimensional arrays in C order, Fortran order and as a transposed view (positions are logical, row-major)
    alts = []
    try:
        with np.errstate(all='ignore'):
            o2 = dict(opts, full_output=False)
            alts.append(('full_output=False', np.atleast_1d(Limit(f, **o2)(z if len(z) > 1 else z[0])).tolist()))
            if len(z) > 1:
                z2 = np.array([z, z[::-1]])
                for nm, zz in (('2-d C order', z2), ('2-d Fortran order', np.asfortranarray(z2)), ('2-d transposed view', np.ascontiguousarray(z2.T).T)):
                    for fo in (True, False):
                        r2 = Limit(f, **dict(opts, full_output=fo))(zz)
                        r2 = r2[0] if fo else r2
                        if np.shape(r2) != z2.shape:
                            alts.append(('%s full_output=%s: shape %s' % (nm, fo, np.shape(r2)), None))
                        else:
                            alts.append(('%s full_output=%s row 0' % (nm, fo), np.asarray(r2)[0].tolist()))
                            alts.append(('%s full_output=%s row 1 reversed' % (nm, fo), np.asarray(r2)[1][::-1].tolist()))
    except Exception as ex:
        alts.append(('raised %s: %s' % (type(ex).__name__, str(ex)[:120]), None))
    if np.asarray(info.error_estimate).dtype.kind != 'f':
        alts.append(('the error estimate has dtype %s: not a floating-point estimate' % np.asarray(info.error_estimate).dtype, None))
    val = np.atleast_1d(val)
    est = np.atleast_1d(info.error_estimate)
    want, kinds = [], []
    with np.errstate(all='ignore'):
        for p in r['layout']:
            zp = pts[p]
            if p == 'P':
                want.append(cfac * gP * (KERN['sinc']((P - Q) * shift) if has_q else 1.0))
            elif p == 'Q':
                want.append(cfac * g(Q) * s(Q - P) * 1.0)          # the second factor -> 1 at Q
            else:
                want.append(f(np.asarray(zp)))
            kinds.append(p)
    # evaluation offsets relative to the singular points (sign / path)
    offs = []
    sing = [pts[p] for p in r['layout'] if p in 'PQ']
    for a in seen[1:]:
        a = np.atleast_1d(a)
        if a.size == len(sing):
            offs.append((a - np.array(sing)).tolist())
    return dict(alts=alts, val=val.tolist(), est=est.tolist(), want=[complex(w) for w in want], kinds=kinds,
                offs=[[complex(o) for o in row] for row in (offs[:6] + offs[-2:])], left_domain=bool(left[0]) or (cfg['path'] == 'spiral' and max([float(np.max(np.abs(r_))) for r_ in offs] + [0.0]) >= dict(sinc=1e300, expm1w=1e300, log1pw=1.0 / 0.125, wsin=3.0 / 0.125)[cfg['kernel']]), regular_exact=[complex(t) for t in np.atleast_1d(first[0])])


def run_poly(case):
    """Extrapolation must do the work: f is a POLYNOMIAL of degree order+1 about P (undefined at P itself) and the steps are
    large (0.5 down to 0.5/ratio^(order+4)), so the samples are far from the limit.  Richardson with order+1 terms for
    the generator's own ratio annihilates every power exactly (RichardsonX.InvModelledRemoved): the limit is a_0 to
    rounding - whatever the error estimate says.  A rule built for another order or another ratio leaves O(h^k)."""
    vlib.use_repo()
    from numdifftools.limits import Limit, CStepGenerator
    method, path, order, ratio, P, seed = case
    rnd = random.Random(seed)
    a = [rnd.uniform(-2, 2) for _ in range(order + 2)]
    if seed % 2:
        a = [x * (1.0 + 0.5j) for x in a]
    if seed % 3 == 0:
        ratio = float(ratio) + rnd.uniform(0.1, 0.9)          # a full-precision real ratio

    def f(z):
        w = np.asarray(z) - P
        acc = np.zeros_like(w, dtype=np.result_type(w, a[0], float))
        for c in a[::-1]:
            acc = acc * w + c
        return np.where(w == 0, np.nan, acc)
    # base_step is the SMALLEST step of a CStepGenerator: the sequence runs from 0.5 down to 0.5/ratio^(order+4)
    gen = CStepGenerator(base_step=0.5 / float(ratio) ** (order + 4), step_ratio=ratio, num_steps=order + 5, path=path, use_exact_steps=False)
    try:
        with np.errstate(all='ignore'):
            val, info = Limit(f, step=gen, method=method, order=order, full_output=True)(P)
    except Exception as ex:
        return dict(error='%s: %s' % (type(ex).__name__, str(ex)[:160]))
    return dict(val=complex(np.ravel(val)[0]), a0=complex(a[0]), scale=float(sum(abs(c) for c in a)), est=float(np.ravel(info.error_estimate)[0]), ratio=ratio)


def run_history(case):
    """one Limit / Residue object used repeatedly: the same point with other extra arguments, after the caller changed the
    returned array in place, and re-entrantly (f evaluates the SAME object at another point part-way) - each result must
    equal what separate new objects give"""
    vlib.use_repo()
    from numdifftools.limits import Limit, Residue
    cls, method, path, P = case
    mk = (lambda f, **kw: Limit(f, method=method, path=path, full_output=True, **kw)) if cls == 'Limit' else (lambda f, **kw: Residue(f, method=method, path=path, full_output=True, **kw))

    def f(z, s=1.0, t=0.0):
        with np.errstate(all='ignore'):
            w = z - P
            core = np.exp(0.5 * w) * s + t * w
            return core * np.sin(w) / w if cls == 'Limit' else core / w
    probs = []
    try:
        with np.errstate(all='ignore'):
            z = np.array([P, P + 0.37]) if cls == 'Limit' else P
            L = mk(f)
            a1 = L(z, 2.0)
            a2 = L(z, -0.5, t=3.0)
            b2 = mk(f)(z, -0.5, t=3.0)
            if np.asarray(a2[0]).tobytes() != np.asarray(b2[0]).tobytes():
                probs.append('second call at the same point with other extra arguments returns %s, a new object %s' % (np.ravel(a2[0]).tolist(), np.ravel(b2[0]).tolist()))
            v = L(z, 1.0)[0]
            keep = np.array(v, copy=True)
            if np.ndim(v):
                v[...] = 7.0                                   # the caller owns the returned array
            v2 = L(z, 1.0)[0]
            if np.asarray(v2).tobytes() != np.asarray(keep).tobytes():
                probs.append('after the caller overwrote the returned array the same call returns %s instead of %s' % (np.ravel(v2).tolist(), np.ravel(keep).tolist()))
            # re-entrant: f evaluates the same object at another point on its third evaluation
            cnt = [0]
            holder = {}

            def g(zz, s=1.0, t=0.0):
                cnt[0] += 1
                if cnt[0] == 3 and 'obj' in holder:
                    holder['obj'](P - 1.25 if cls == 'Residue' else np.array([P - 1.25]), 1.0)
                return f(zz, s, t)
            R1 = mk(g)
            holder['obj'] = R1
            r1 = R1(z, 1.0)[0]
            r2 = mk(f)(z, 1.0)[0]
            if not np.allclose(np.asarray(r1), np.asarray(r2), rtol=1e-9, atol=1e-12, equal_nan=True):
                probs.append('a function that evaluates the same object at another point part-way makes the outer call return %s instead of %s' % (np.ravel(r1).tolist(), np.ravel(r2).tolist()))
    except Exception as ex:
        probs.append('raised %s: %s' % (type(ex).__name__, str(ex)[:140]))
    return probs


def run_residue(case):
    vlib.use_repo()
    from numdifftools.limits import Residue
    pi, z0, p, method, order, path, ratio, cfac = case
    pr = PROGS[pi]
    g = exprs.make_fun(pr['prog'], 1.0, z0)
    gz = exprs.jet_floats(pr['jet'])[0]

    def f(z):
        with np.errstate(all='ignore'):
            return cfac * g(z) / (z - z0) ** p
    kw = dict(pole_order=p, method=method, full_output=True, path=path)
    if ratio:
        kw['step_ratio'] = ratio
    if order:
        kw['order'] = order
    try:
        with np.errstate(all='ignore'):
            R = Residue(f, **kw)
            val, info = R(z0)
            arr, ainfo = Residue(f, **kw)(np.array([z0, z0]))
            plain = Residue(f, **dict(kw, full_output=False))(z0)
    except Exception as ex:
        return dict(error='%s: %s' % (type(ex).__name__, str(ex)[:160]))
    # several poles of different modulus in one call (each element has its own nominal step): the residue of exp(z)/(z - z0_j)^p at z0_j
    mixed = None
    if not np.iscomplexobj(z0) or np.imag(z0) == 0:
        zs = np.array([np.real(z0), np.real(z0) + 2.0, -(abs(np.real(z0)) + 1.25)])
        try:
            with np.errstate(all='ignore'):
                mv, mi = Residue(lambda z: cfac * np.exp(z) / (z - zs) ** p, **kw)(zs)
            mixed = [float(np.max(np.abs(np.asarray(mv) - cfac * np.exp(zs)) / np.abs(cfac * np.exp(zs)))), float(np.max(mi.error_estimate))]
        except Exception as ex:
            mixed = 'raised %s: %s' % (type(ex).__name__, str(ex)[:100])
    return dict(val=complex(val), est=float(np.max(info.error_estimate)), want=cfac * gz, order=int(R.order), arr=[complex(a) for a in np.ravel(arr)], plain=complex(plain), mixed=mixed)


def run(tier, rep):
    global RECS, PROGS
    seed = vlib.seed_from_env()
    cfg = "CONSTANT EmitOn = TRUE\nSPECIFICATION Spec\nCHECK_DEADLOCK FALSE\nINVARIANT RegularUntouched\nINVARIANT PutIndexBijection\nCONSTRAINT Emit\n"
    res = vlib.tlc('LimitRes', cfg_text=cfg)
    if res.violated:
        raise vlib.MachineryError('LimitRes violates %s' % res.violated)
    vlib.require_ok(res)
    pcfg = open(vlib.SPEC + '/MC_Expr.cfg').read().replace('MaxOps = 2', 'MaxOps = 1')
    pres = vlib.tlc('ExprMachine', cfg_text=pcfg, tag='expr_c18')
    vlib.require_ok(pres)
    # analytic, non-vanishing g with a generous radius: entire programs plus a few others
    PROGS = [p for p in pres.records if p['entire'] and abs(exprs.jet_floats(p['jet'])[0]) > 0.1] + \
            [p for p in pres.records if p['prog'][-1] in ('add1', 'log1p', 'arctan', 'tanh') and False]
    if len(PROGS) < 3:
        raise vlib.MachineryError('too few g programs')
    RECS = res.records
    rnd = random.Random(seed)
    placements = [(0.0, 1.5), (2.5, -1.0), (-3.0, 0.75), (0.5 + 0.5j, -0.25 + 1j), (1j, 0.3)]
    cases = []
    for ri, r in enumerate(RECS):
        if tier == 'quick' and rnd.random() > 0.35:
            continue
        pl = rnd.choice([q for q in placements if not (r['cfg']['kernel'] == 'log1pw' and q == (2.5, -1.0))])
        cases.append((ri, rnd.randrange(len(PROGS)), pl, seed + ri))
    outs = vlib.pool_map(run_case, cases, chunksize=4)
    K, FL = ENV['limit']['K'], ENV['limit']['floor']
    n = 0
    skipped = 0
    surv = []
    for (ri, pi, pl, _), o in zip(cases, outs):
        r = RECS[ri]
        cfg_ = r['cfg']
        name = 'Limit layout=%s %s/%s order=%d ratio=%d kernel=%s g=%s at P=%r Q=%r' % (''.join(r['layout']), cfg_['method'], cfg_['path'], cfg_['order'], cfg_['ratio'], cfg_['kernel'], '.'.join(PROGS[pi]['prog']), pl[0], pl[1])
        if 'error' in o:
            rep.violation('raises:limit', dict(case=name), '%s raised %s' % (name, o['error']))
            continue
        if o['left_domain']:
            skipped += 1
            continue
        n += 1
        for i, p in enumerate(o['kinds']):
            v, w, e = complex(o['val'][i]), complex(o['want'][i]), o['est'][i]
            if p in 'RS':
                if not (v == complex(o['regular_exact'][i])):
                    rep.violation('regular-changed', dict(case=name, position=i, got=[v.real, v.imag], f=[w.real, w.imag]), '%s: regular point #%d returns %r, f itself gives %r there' % (name, i, v, w))
                    break
            else:
                err = abs(v - w)
                floor = FL * max(abs(w), 1.0)
                if err > floor:
                    surv.append((err / max(e, 1e-300), name))
                if not (e >= 0 and err <= K * e + floor):
                    rep.violation('limit-value:%s' % cfg_['kernel'], dict(case=name, position=i, got=[v.real, v.imag], want=[w.real, w.imag], error_estimate=e),
                                  '%s: singular point #%d (%s): limit %r, exact %r, error_estimate %.3g' % (name, i, p, v, w, e))
                    break
        for nm, av in o['alts']:
            if av is None:
                rep.violation('limit-variant', dict(case=name, variant=nm), '%s: %s' % (name, nm))
                break
            a, b = np.array(av, dtype=complex), np.array(o['val'], dtype=complex)
            if a.shape != b.shape or not (np.abs(a - b) <= 1e-9 * np.maximum(1.0, np.abs(b))).all():
                rep.violation('limit-variant:' + nm.split(' row')[0].split('=')[0], dict(case=name, variant=nm, got=[[t.real, t.imag] for t in a], plain=[[t.real, t.imag] for t in b]),
                              '%s: called as %s the points give %s, the plain 1-d full_output call gives %s' % (name, nm, a.tolist(), b.tolist()))
                break
        # sign and path of the evaluation points
        sgn = r['sign']
        if o['offs']:
            allo = np.array([x for row in o['offs'] for x in row])
            if cfg_['path'] == 'radial' and not all(isinstance(x, float) or True for x in allo):
                pass
            last = np.array(o['offs'][-1])
            if cfg_['path'] == 'radial':
                if not ((np.abs(np.imag(allo)) <= 1e-12 * np.abs(allo)).all() and (np.sign(np.real(allo)) == sgn).all()):
                    rep.violation('sign-or-path', dict(case=name, offsets=[[x.real, x.imag] for x in allo[:6]]), '%s: radial steps from %s must be real with sign %+d; saw offsets %s' % (name, cfg_['method'], sgn, allo[:4].tolist()))
            else:
                # the spiral winds in and arrives from the side the method names
                if (np.abs(np.imag(allo)) <= 1e-12 * np.abs(allo)).all() or not (np.sign(np.real(last)) == sgn).all():
                    rep.violation('sign-or-path', dict(case=name, offsets=[[x.real, x.imag] for x in allo[:6]]), '%s: spiral path must leave the real axis and arrive from %s; last offsets %s' % (name, cfg_['method'], last.tolist()))
    # polynomial kernels with large steps: the extrapolation stage is observed (order and ratio matter)
    pcases = [(m_, p_, o_, r_, P_, seed + 7 * i + j) for i, (m_, p_, o_, r_) in enumerate(sorted({(rr['cfg']['method'], rr['cfg']['path'], rr['cfg']['order'], rr['cfg']['ratio']) for rr in RECS}))
              for j, P_ in enumerate((0.0, 1.5, 0.5 + 0.5j))]
    for pc, o in zip(pcases, vlib.pool_map(run_poly, pcases, chunksize=4)):
        name = 'Limit of a degree-%d polynomial about P=%r, steps 0.5..0.5/%.4g^%d, %s/%s order=%d' % (pc[2] + 1, pc[4], o.get('ratio', pc[3]), pc[2] + 4, pc[0], pc[1], pc[2])
        if 'error' in o:
            rep.violation('raises:poly', dict(case=name), '%s raised %s' % (name, o['error']))
            continue
        n += 1
        if not abs(o['val'] - o['a0']) <= 1e5 * np.finfo(float).eps * o['scale']:
            rep.violation('extrapolation:%s' % pc[1], dict(case=name, got=[o['val'].real, o['val'].imag], exact=[o['a0'].real, o['a0'].imag], error_estimate=o['est']),
                          '%s: limit %r, exact a_0 = %r (error %.3g, reported estimate %.3g): the modelled powers are not annihilated' % (name, o['val'], o['a0'], abs(o['val'] - o['a0']), o['est']))
    # histories on one object
    hcases = [(cls, method, path, P) for cls in ('Limit', 'Residue') for method in ('above', 'below') for path in ('radial', 'spiral') for P in (0.0, 1.5, 0.5 + 0.5j)]
    for hc, probs in zip(hcases, vlib.pool_map(run_history, hcases, chunksize=2)):
        n += 1
        for pr in probs[:1]:
            rep.violation('history:%s' % hc[0], dict(case=list(map(str, hc))), '%s %s/%s at %r reused: %s' % (hc[0], hc[1], hc[2], hc[3], pr))
    # Residue
    rcases = []
    for pi in range(len(PROGS)):
        for z0 in (0.0, 1.5, -2.0, 0.5 + 0.5j, 2.5, 0.7, math.pi, 2.4, -1.8, 1.05):       # dyadic and non-dyadic: z0 + h is rounded for the latter
            for p in (1, 2, 3):
                for method in ('above', 'below'):
                    for order in (0, p + 1, p + 3):
                        for path in ('radial', 'spiral'):
                            if tier == 'quick' and rnd.random() > 0.2:
                                continue
                            rcases.append((pi, z0, p, method, order, path, rnd.choice([0, 0, 2.0, 3.0]), rnd.choice([1.0, 1.0 + 0.5j])))
    routs = vlib.pool_map(run_residue, rcases, chunksize=4)
    KR, FR = ENV['limit']['K_residue'], ENV['limit']['floor_residue']
    for (pi, z0, p, method, order, path, ratio, cfac), o in zip(rcases, routs):
        name = 'Residue g=%s%s z0=%r pole_order=%d %s/%s order=%s ratio=%s' % ('(1+0.5j)*' if cfac != 1.0 else '', '.'.join(PROGS[pi]['prog']), z0, p, method, path, order or 'default', ratio or 'default')
        if 'error' in o:
            rep.violation('raises:residue', dict(case=name), '%s raised %s' % (name, o['error']))
            continue
        n += 1
        if not order and o['order'] != p + 2:
            rep.violation('residue-default-order', dict(case=name, got=o['order']), '%s: default order %d, documented pole_order + 2 = %d' % (name, o['order'], p + 2))
        err = abs(o['val'] - o['want'])
        floor = FR * max(abs(o['want']), 1.0)
        if err > floor:
            surv.append((err / max(o['est'], 1e-300), name))
        if not err <= KR * o['est'] + floor:
            rep.violation('residue-value:p=%d:%s' % (p, method), dict(case=name, got=[o['val'].real, o['val'].imag], want=o['want'], error_estimate=o['est']),
                          '%s: residue %r, exact g(z0) = %r, error_estimate %.3g' % (name, o['val'], o['want'], o['est']))
        elif not abs(o['plain'] - o['val']) <= 1e-9 * max(1.0, abs(o['val'])):
            rep.violation('residue-variant:full_output', dict(case=name, got=[o['plain'].real, o['plain'].imag], with_record=[o['val'].real, o['val'].imag]),
                          '%s: without full_output the residue is %r, with it %r' % (name, o['plain'], o['val']))
        elif max(abs(a - o['want']) for a in o['arr']) > KR * o['est'] * 10 + floor * 10:
            rep.violation('residue-array', dict(case=name, got=[[a.real, a.imag] for a in o['arr']]), '%s: array z0 gives %s' % (name, o['arr']))
        elif isinstance(o.get('mixed'), str):
            rep.violation('raises:residue', dict(case=name), '%s with an array of three different poles %s' % (name, o['mixed']))
        elif o.get('mixed') and not o['mixed'][0] <= 1e-6 + KR * o['mixed'][1]:
            rep.violation('residue-array:mixed', dict(case=name, relative_error=o['mixed'][0], error_estimate=o['mixed'][1]),
                          '%s: exp(z)/(z - z0_j)^p at three poles of different modulus in one call: worst relative error %.3g, error_estimate %.3g' % (name, o['mixed'][0], o['mixed'][1]))
    if os.environ.get('VERIF_SURVEY'):
        surv.sort(reverse=True)
        for t in surv[:25]:
            print('SURVEY ratio %.3g | %s' % t)
        print('SURVEY beyond floor', len(surv))
    states, trans, per = vlib.merge_tlc([res, pres])
    cov = dict(states=states, transitions=trans, traces_validated_against_impl=n, samples=[RECS[7], dict(g=PROGS[0]['prog'])], evaluations=n,
               distinct_nontrivial=len({(c[0], c[1]) for c in cases if any(p in 'PQ' for p in RECS[c[0]]['layout'])}),
               rule='TLC: 10 array layouts x {above, below} x {radial, spiral} x order {1,2,4,8} x step_ratio {2,4,16} x 4 kernels; replay with entire programs g and real/complex placements; Residue: g x z0 x pole order 1..3 x method x order',
               K=K, skipped_left_domain=skipped, tlc=per)
    assum = ['g(P) is the exact jet value of the ExprMachine program; the regular second factor is evaluated by numpy', 'bounds K*error_estimate + floor from envelopes.json (limit)']
    return cov, assum
