"""C11 - misuse fails loudly with ValueError instead of returning numbers.

spec/Guards.tla: the guard points of a call as a small state machine with the requirement
NoNumbersOnMisuse (and NoFalseAlarm), model-checked over classes x methods x n x {complex x,
complex-valued f} x {vectorised or not} x {enough steps or not} x dimension x full_output, plus the
table of argument guards of the other entry points.  Every terminal state is replayed: the real
call must end in ValueError exactly when the specification says so."""
import numpy as np
import vlib

KF_JAC = 'jacobian-complex-guard'


def classify(fn):
    try:
        r = fn()
    except ValueError:
        return 'ValueError', None
    except Exception as ex:
        return 'other:%s' % type(ex).__name__, str(ex)[:120]
    return 'Return', r


def make_f(k):
    cls, fc, vec = k['cls'], k['fc'], k['vec']
    im = k.get('im', 0.5)                      # size of the imaginary part: 0.5, 1e-8, 1e-16 or 1e-300
    cf = (1.0 + 1j * im) if fc else 1.0
    if fc == 2 and cls == 'Derivative':
        cf = np.array([1.0 + 1j * im] + [1.0] * (k['dim'] - 1))       # complex-valued for the first element only
    if cls == 'Derivative':
        if vec or k['dim'] == 1:
            return lambda z: (z * z * z + z * 2.0) * cf
        return lambda z: ((z * z * z + z * 2.0) * cf)[0]
    if cls == 'Jacobian':
        def fj(z):
            a = z[0] * z[0] * cf + z[len(z) - 1] * 3.0
            b = z[0] * z[len(z) - 1] * (cf if fc == 1 else 1.0)       # fc = 2: only the first component is complex-valued
            return np.array([a, b])
        return fj

    def fs(z):
        acc = z[0] * z[0] * cf
        for j in range(len(z)):
            acc = acc + z[j] * z[j] * (0.5 + j) + z[j] * cf
        return acc
    return fs


def run_case(k):
    vlib.use_repo()
    import numdifftools as nd
    from numdifftools.step_generators import MinStepGenerator
    c = k['c']
    kw = dict(method=c['m'], full_output=c['full'])
    if c['cls'] == 'Derivative':
        kw['n'] = c['n']
    order = dict(central=4, forward=2, complex=8, multicomplex=2)[c['m']] if c['few'] else 2
    if c['cls'] != 'Hessian':
        kw['order'] = order
    if c['few']:
        from numdifftools.step_generators import MaxStepGenerator
        # too few steps through either generator class (the count must not be silently raised behind check_num_steps=False)
        kw['step'] = (MaxStepGenerator(base_step=0.5, num_steps=1, check_num_steps=False) if (c['dim'] + c['n'] + len(c['m'])) % 2
                      else MinStepGenerator(base_step=0.01, num_steps=1, check_num_steps=False))
    x = np.array([0.5, 1.25, -0.75][:c['dim']])
    if c['xc'] == 1:
        x = x + 1j * c.get('im', 0.25)
    elif c['xc'] == 2:
        x = x + 1j * c.get('im', 0.25) * (np.arange(len(x)) == len(x) - 1)        # only the last element is complex
    if c['cls'] == 'Derivative' and c['dim'] == 1:
        x = x[0]
    f = make_f(c)
    if c['m'] == 'multicomplex' and c['n'] > 2 and c['cls'] == 'Derivative':
        # history: a legal multicomplex call of the same class of n (mod 4) earlier in the process must not disarm the guard
        try:
            nd.Derivative(lambda z: z * z * z, method='multicomplex', n=((c['n'] - 1) % 4) + 1 if ((c['n'] - 1) % 4) + 1 <= 2 else 1)(0.5)
        except Exception:
            pass
    def build_and_call():
        if c['via'] == 'setter':
            kw2 = dict(kw, method='forward' if c['m'] != 'forward' else 'central')
            obj = getattr(nd, c['cls'])(f, **kw2)
            obj.method = c['m']
        else:
            obj = getattr(nd, c['cls'])(f, **kw)
        return obj(x)
    out, detail = classify(build_and_call)
    if out == 'Return':
        detail = repr(np.asarray(detail[0] if c['full'] else detail).ravel()[:3])
    return out, detail


def run_misc(k):
    vlib.use_repo()
    import numdifftools as nd
    from numdifftools import fornberg as fb, limits
    m = k['misc']
    kind, a, b = m['kind'], m['a'], m['b']
    if kind == 'directionaldiff':
        fn = lambda: nd.directionaldiff(lambda z: np.sum(z * z), np.arange(1.0, a + 1), np.ones(b))
    elif kind == 'fd_weights_all':
        fn = lambda: fb.fd_weights_all(np.arange(a) * 0.5, 0.1, b)
    elif kind == 'fd_weights':
        fn = lambda: fb.fd_weights(np.arange(a) * 0.5, 0.1, b)
    elif kind == 'fd_derivative_n':
        fn = lambda: fb.fd_derivative(np.arange(a) ** 2.0, np.arange(a) * 1.0, n=b, m=1 if b < 4 else 1)
    elif kind == 'fd_derivative_len':
        fn = lambda: fb.fd_derivative(np.arange(b) ** 2.0, np.arange(a) * 1.0, n=1, m=2)
    elif kind == 'residue':
        fn = lambda: limits.Residue(lambda z: 1.0 / np.expm1(z) ** a * (1 + z), pole_order=a, order=b)(0.0)
    elif kind == 'limit_path':
        path = {1: 'radial', 2: 'spiral', 3: 'diagonal', 4: 'x', 5: 'straight', 6: 'random', 7: 'Radial', 8: 's', 9: 'radial '}[a]
        kw = {0: {}, 1: dict(dtheta=0), 2: dict(dtheta=np.pi / 4, step_ratio=2.0), 3: {}, 4: dict(dtheta=0.0), 5: dict(dtheta=0), 6: {}, 7: {}}[b]
        if b == 6:      # the limit at a REGULAR point (f is finite there: no step is ever generated)
            fn = lambda: limits.Limit(lambda z: np.sin(z) / z, path=path)(1.0)
        elif b == 7:    # construction alone
            fn = lambda: limits.Limit(lambda z: np.sin(z) / z, path=path) and None
        if b in (6, 7):
            pass
        elif a == 2 or b == 4:      # spiral needs the complex machinery; constructing the generator is the guard point
            fn = lambda: limits.CStepGenerator(path=path, **kw)
        elif b in (3, 5):
            fn = lambda: limits.Residue(lambda z: 1.0 / np.expm1(z), path=path, **kw)(0.0)
        else:
            fn = lambda: limits.Limit(lambda z: np.sin(z) / z, path=path, **kw)(0.0)
    out, detail = classify(fn)
    return out, (repr(detail)[:80] if out == 'Return' else detail)


def run_memo_history(item):
    """one object, same x: a legal call with a real extra argument, then the same call with a complex one (f becomes complex-valued):
    the second must raise ValueError whatever the object has seen before"""
    vlib.use_repo()
    import numdifftools as nd
    cls, method, dim = item
    if cls == 'Derivative':
        f = lambda x, a=1.0: a * np.exp(x)
    elif cls in ('Gradient', 'Hessdiag', 'Hessian'):
        f = lambda x, a=1.0: a * np.exp(np.sum(x * np.arange(1, np.size(x) + 1) * 0.25))
    else:
        f = lambda x, a=1.0: a * np.exp(x * 0.5)
    x = np.array([0.5, 1.25, -0.75][:dim]) if not (cls == 'Derivative' and dim == 1) else 0.5
    obj = getattr(nd, cls)(f, method=method)
    try:
        obj(x, 2.0)
    except Exception as ex:
        return 'MachineryFirst', repr(ex)[:80]
    out, detail = classify(lambda: obj(x, 1.0 + 0.5j))
    return out, repr(detail)[:80]


def run_one_short(item):
    """the number of steps the rule of (method, n, order) consumes comes from the specification (MC_Rules: nterms); a user generator
    that yields one step less must raise ValueError, one that yields exactly that many must not"""
    vlib.use_repo()
    import numdifftools as nd
    from numdifftools.step_generators import MinStepGenerator, MaxStepGenerator
    m, n, o, nterms, short = item
    ns = nterms - 1 if short else nterms
    G = MaxStepGenerator if (n + o) % 2 else MinStepGenerator
    def call():
        return nd.Derivative(np.exp, n=n, method=m, order=o, step=G(base_step=0.25, step_ratio=2.0, num_steps=ns, check_num_steps=False))(0.5)
    out, detail = classify(call)
    return out, repr(detail)[:80]


CFG = """CONSTANTS
  JacobianSkipsEvalFirst = %s
  EmitOn = %s
SPECIFICATION Spec
CHECK_DEADLOCK FALSE
INVARIANT NoNumbersOnMisuse
INVARIANT NoFalseAlarm
CONSTRAINT Emit
"""


def run(tier, rep):
    res = vlib.tlc('Guards', cfg_text=CFG % ('FALSE', 'TRUE'), tag='Guards')
    if res.violated:
        raise vlib.MachineryError('Guards violates %s\n%s' % (res.violated, res.out[-1500:]))
    vlib.require_ok(res)
    dev = vlib.tlc('Guards', cfg_text=CFG % ('TRUE', 'FALSE'), tag='Guards_dev')
    if dev.violated != 'NoNumbersOnMisuse':
        raise vlib.MachineryError('the upstream deviation should violate NoNumbersOnMisuse on the model (vacuity guard)')
    calls = [r for r in res.records if 'c' in r]
    misc = [r for r in res.records if 'misc' in r]
    if not misc or not calls:
        raise vlib.MachineryError('no cases emitted')
    for i_, r_ in enumerate(calls):          # the SIZE of the imaginary part is not part of the misuse: large, small and denormal-small
        if r_['c']['xc'] or r_['c']['fc']:
            r_['c']['im'] = [0.25, 1e-8, 1e-16, 1e-300][i_ % 4]
    outs = vlib.pool_map(run_case, calls)
    n = 0
    for r, (out, detail) in zip(calls, outs):
        n += 1
        c = r['c']
        key = '%s/%s/n=%d/xc=%s/fc=%s/vec=%s/few=%s/dim=%d/full=%s' % (c['cls'], c['m'], c['n'], c['xc'], c['fc'], c['vec'], c['few'], c['dim'], c['full'])
        want = r['outcome']
        if want == 'ValueError' and out != 'ValueError':
            kind = 'numbers-on-misuse' if out == 'Return' else 'wrong-exception'
            rep.violation('%s:%s' % (kind, key), dict(case=c, got=out, detail=detail),
                          '%s: misuse must raise ValueError but the call %s' % (key, ('returned %s' % detail) if out == 'Return' else ('raised %s (%s)' % (out, detail))))
        elif want == 'Return' and out != 'Return':
            rep.violation('false-alarm:' + key, dict(case=c, got=out, detail=detail), '%s: valid use raised %s (%s)' % (key, out, detail))
    outs = vlib.pool_map(run_misc, misc)
    for r, (out, detail) in zip(misc, outs):
        n += 1
        m = r['misc']
        key = '%s(%d,%d)' % (m['kind'], m['a'], m['b'])
        if r['misuse'] and out != 'ValueError':
            rep.violation('misc-numbers-on-misuse:' + key, dict(case=m, got=out, detail=detail), '%s must raise ValueError but %s (%s)' % (key, out, detail))
        elif not r['misuse'] and out != 'Return':
            rep.violation('misc-false-alarm:' + key, dict(case=m, got=out, detail=detail), '%s is valid use but raised %s (%s)' % (key, out, detail))
    # "fewer steps than the rule needs": the count from the specification's rule table (MC_Rules), one step short and exactly enough
    import c06
    rules = c06.tlc_cases('quick')
    oitems = [(r_['m'], r_['n'], r_['o'], r_['nterms'], short) for r_ in rules.records
              if r_['m'] in ('central', 'forward', 'backward', 'complex') and r_['nterms'] >= 2 and r_['n'] <= 8 and r_['o'] <= 8 for short in (True, False)]
    for it_, (out, detail) in zip(oitems, vlib.pool_map(run_one_short, oitems, chunksize=16)):
        n += 1
        key = 'one-short(%s,n=%d,order=%d,rule terms %d)' % it_[:4]
        if it_[4] and out != 'ValueError':
            rep.violation('few-steps:numbers-on-misuse', dict(case=list(it_), got=out, detail=detail), '%s: a generator with %d steps must raise ValueError but %s (%s)' % (key, it_[3] - 1, out, detail))
        elif not it_[4] and out != 'Return':
            rep.violation('few-steps:false-alarm', dict(case=list(it_), got=out, detail=detail), '%s: a generator with exactly %d steps is valid use but raised %s (%s)' % (key, it_[3], out, detail))
    mitems = [(cls, method, dim) for cls in ('Derivative', 'Gradient', 'Jacobian', 'Hessdiag', 'Hessian') for method in ('complex', 'multicomplex') for dim in (1, 3)]
    for it_, (out, detail) in zip(mitems, vlib.pool_map(run_memo_history, mitems, chunksize=4)):
        n += 1
        if out != 'ValueError':
            rep.violation('history:numbers-on-misuse' if out == 'Return' else 'history:%s' % out, dict(case=list(it_), got=out, detail=detail),
                          '%s(method=%s), dim %d: after a legal call at the same x, a call whose extra argument makes f complex-valued must raise ValueError but %s (%s)' % (it_[0], it_[1], it_[2], out, detail))
    states, trans, per = vlib.merge_tlc([res, dev, rules])
    cov = dict(states=states, transitions=trans, traces_validated_against_impl=n, exhaustive=True, call_cases=len(calls), misc_cases=len(misc),
               samples=[calls[5], misc[3]], evaluations=n, distinct_nontrivial=sum(1 for r in calls if r['misuse']) + sum(1 for r in misc if r['misuse']),
               rule='every terminal state of the Guards machine (class x method x n x complex x / complex-valued f x vectorised x enough steps x dim x full_output) and every entry of the argument-guard table; non-trivial = misuse cases',
               deviation_counterexample=dev.violated, tlc=per)
    assum = ['complex x means non-zero imaginary part (np.iscomplex), complex-valued f means f(x) has non-zero imaginary part at the real point',
             'n >= 1 (n = 0 returns f(x) and is not a derivative)']
    return cov, assum
