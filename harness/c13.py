"""C13 - dea3 recovers the limit of a geometric transient and never produces garbage.

TLC (MC_Dea3 over spec/Wynn.tla) enumerates triples (a full small grid for totality; geometric
triples L + a q^j) with the exact branch, result and error estimate of the three-term epsilon step,
and proves the Geometric / NonNegative / Covariant theorems on that domain.  Every case is replayed
into the real dea3 as a scalar, scaled by powers of two over 30 orders of magnitude (Covariant
lemma), and packed together with all other cases into 1-d/2-d/3-d arrays (elementwise)."""
import numpy as np, random, warnings
import vlib

EPS = np.finfo(float).eps


def expected(rec, c=1.0):
    d = rec['d3']
    res = vlib.fl(d['result']) * c
    err = (vlib.fl(d['err']) + vlib.fl(d['epsc']) * EPS) * abs(c)
    return res, err


def usable(rec):
    d = rec['d3']
    return d['valid'] and rec['dom'] and all(q[1] != 0 for q in (d['result'], d['err'], d['epsc']))


def dea3_exact(e0, e1, e2):
    """spec/Wynn.tla Dea3 with its general clauses, evaluated in exact rational arithmetic on the float inputs: a difference
    counts as converged iff |d| <= max|e| * EPS (EPS = 2^-52 as a rational), irregular iff |sss * e1| <= 1e-4.
    Returns (branch, exact result, exact |sss * e1|)"""
    from fractions import Fraction as Fr
    f0, f1, f2 = Fr(float(e0)), Fr(float(e1)), Fr(float(e2))
    d1, d2 = f1 - f0, f2 - f1
    eps = Fr(1, 2 ** 52)
    tol1, tol2 = max(abs(f1), abs(f0)) * eps, max(abs(f2), abs(f1)) * eps
    if abs(d1) <= tol1 or abs(d2) <= tol2:
        return 'converged', f2, None
    sss = 1 / d2 - 1 / d1
    g = abs(sss * f1)
    if g <= Fr(1, 10000):
        return 'irregular', f2, g
    return 'extrapolated', f1 + 1 / sss, g


def guard_region(rep, dea3, rnd, tier):
    """float triples that SAMPLE the guards: |sss*e1| spread over 1e-7 .. 1e-2 around the 1e-4 threshold, and neighbours
    that differ by 1 .. 6 ulp around the convergence tolerance (both absent from the exact grid of MC_Dea3)"""
    n = 0
    for i in range(400 if tier == 'quick' else 4000):
        e1 = rnd.choice([1.0, -3.0, 0.37, 250.0, -1e-6])
        if i % 2 == 0:
            t = 10.0 ** rnd.uniform(-7, -2)
            d1 = rnd.choice([0.5, -0.25, 1e-3]) * abs(e1)
            sss = t / e1
            d2 = 1.0 / (sss + 1.0 / d1)
            tri = (e1 - d1, e1, e1 + d2)
        else:
            k = rnd.choice([1, 2, 3, 4, 6])
            a = e1
            tri = [(a, a * (1 + k * EPS), 3.0 * a + 1.0), (3.0 * a + 1.0, a, a * (1 + k * EPS)), (a * (1 - k * EPS), a, 2.0 * a)][i % 3]
        tri = tuple(np.float64(v) for v in tri)
        branch, want, g = dea3_exact(*tri)
        if g is not None and abs(float(g) - 1e-4) < 2e-6:
            continue                               # the threshold itself is decided by rounding in sss*e1
        with np.errstate(all='ignore'):
            got, err = dea3(*tri)
        n += 1
        got = float(np.ravel(got)[0])
        if branch != 'extrapolated':
            ok = got == float(tri[2])
        else:
            ok = abs(got - float(want)) <= 1e-6 * max(abs(float(want)), abs(float(tri[1])))
        if not ok:
            rep.violation('guard-region:%s' % branch, dict(e=[float(v) for v in tri], branch=branch, got=got, want=float(want), guard=None if g is None else float(g)),
                          'dea3(%r): the specification takes the %s branch (|sss*e1| = %s) and gives %r, the code returns %r' % ([float(v) for v in tri], branch, None if g is None else '%.3g' % float(g), float(want), got))
    return n


def first_call_float32(_):
    """in a process that has not used the library yet: a float32 call first, then float64 geometric triples with small
    transients - what an earlier call looked like must not change the machine constants a later call works with"""
    vlib.use_repo()
    from numdifftools.extrapolation import dea3
    out = []
    with np.errstate(all='ignore'):
        dea3(np.array([1.0, 1.5, 1.75], dtype=np.float32), np.array([1.5, 1.75, 1.875], dtype=np.float32), np.array([1.75, 1.875, 1.9375], dtype=np.float32))
        for L, a, q in ((1.0, 1e-8, 0.5), (-3.0, 2e-9, -0.25), (1.0, 1e-3, 0.5), (2.0, 5e-11, 0.75)):
            e = [np.float64(L + a * q ** k) for k in range(3)]
            r, err = dea3(*e)
            out.append((L, a, q, float(r[0]), float(err[0])))
    return out


def run(tier, rep):
    seed = vlib.seed_from_env()
    from numdifftools.extrapolation import dea3
    for L, a, q, r, err in vlib.pool_map(first_call_float32, [0], chunksize=1)[0]:
        # conditioning of the three-term formula for a geometric triple: 1/(1-q)^2 on differences of size a
        tol = 64 * EPS * abs(L) * max(1.0, 2.0 / (1 - q) ** 2) + 1e-300
        if not abs(r - L) <= tol:          # against the exact limit alone (the library's own abserr is not part of the oracle)
            rep.violation('history:float32-first', dict(L=L, a=a, q=q, got=r, abserr=err),
                          'after a float32 call earlier in the process dea3 returns %r for L=%r, a=%r, q=%r (error %.3g, reported %.3g)' % (r, L, a, q, abs(r - L), err))
    held = []
    res = vlib.tlc('MC_Dea3', cfg='MC_Dea3.cfg')
    if res.violated:
        raise vlib.MachineryError('MC_Dea3 violates %s\n%s' % (res.violated, res.out[-1500:]))
    vlib.require_ok(res)
    recs = [r for r in res.records]
    cases = [r for r in recs if usable(r)]
    skipped = len(recs) - len(cases)
    scales = [1.0, 2.0 ** 50, 2.0 ** -50, -2.0 ** 20, 2.0 ** -7, 2.0 ** -62] if tier == 'quick' else [2.0 ** k for k in (-70, -62, -50, -33, -20, -7, 0, 1, 13, 31, 50, 62)] + [-2.0 ** 20]
    nscalar = 0
    # near-guard cases (|sss*e1| within 1% of 1e-4) are decided by rounding: excluded and counted
    def near_guard(r):
        e0, e1, e2 = [vlib.fl(q) for q in r['e']]
        d1, d2 = e1 - e0, e2 - e1
        if d1 == 0 or d2 == 0:
            return False
        v = abs((1 / d2 - 1 / d1) * e1)
        return abs(v - 1e-4) < 1e-6
    cases = [r for r in cases if not near_guard(r)]
    for r in cases:
        e = [vlib.fl(q) for q in r['e']]
        for c in scales:
            a = [np.float64(v * c) for v in e]
            keep = [float(v) for v in a]
            try:
                with warnings.catch_warnings():
                    warnings.simplefilter('error')       # "raises nothing" also for callers who turn warnings into errors
                    got, gerr = dea3(a[0], a[1], a[2])
            except Exception as ex:
                rep.violation('raises', dict(e=e, scale=c), 'dea3 raised %r on %r (warnings treated as errors)' % (ex, keep))
                continue
            nscalar += 1
            if len(held) < 3000:
                held.append((got, gerr, np.array(got, copy=True), np.array(gerr, copy=True)))      # results are values: kept ones never change
            if [float(v) for v in a] != keep:
                rep.violation('inputs-modified', dict(e=e, scale=c), 'dea3 modified its inputs')
            want, werr = expected(r, c)
            mag = max(abs(v) for v in keep) + abs(want)
            g, ge = float(np.ravel(got)[0]), float(np.ravel(gerr)[0])
            cond = 1.0
            if not r['d3']['conv']:
                d1, d2 = keep[1] - keep[0], keep[2] - keep[1]
                if d2 != d1:
                    # result = e1 + corr, corr = 1/(1/d2 - 1/d1): a rounding eps*mag in each difference moves corr by
                    # eps*mag*((corr/d1)^2 + (corr/d2)^2)  (dimensionless amplification, scale invariant)
                    corr = d1 * d2 / (d1 - d2)
                    cond = max(1.0, (corr / d1) ** 2 + (corr / d2) ** 2, abs(corr / d1) + abs(corr / d2))
            tol = 64 * EPS * mag * max(cond, 1.0) + 1e-300
            if not (np.isfinite(g) and abs(g - want) <= tol):
                rep.violation('value:%s' % r['fam'], dict(e=r['e'], scale=c, got=g, want=want, conv=r['d3']['conv']),
                              'dea3(%r) = %r, exact three-term epsilon step gives %r (converged branch: %s)' % (keep, g, want, r['d3']['conv']))
                continue
            if not (ge >= 0 and np.isfinite(ge) and abs(ge - werr) <= 1e-6 * werr + 64 * EPS * mag * cond):
                rep.violation('abserr:%s' % r['fam'], dict(e=r['e'], scale=c, got=ge, want=werr),
                              'dea3(%r) error estimate %r, exact %r' % (keep, ge, werr))
                continue
            if r['fam'] == 'geo' and not r['d3']['conv']:
                Lc = vlib.fl(r['L']) * c
                if abs(g - Lc) > ge + tol:
                    rep.violation('dishonest', dict(e=r['e'], scale=c, got=g, L=Lc, abserr=ge),
                                  'dea3(%r): |result - L| = %r exceeds the reported error %r' % (keep, abs(g - Lc), ge))
    for got, gerr, g0, e0 in held:
        if not (np.array_equal(got, g0, equal_nan=True) and np.array_equal(gerr, e0, equal_nan=True)):
            rep.violation('result-overwritten', dict(returned=[g0.tolist(), e0.tolist()], now=[np.asarray(got).tolist(), np.asarray(gerr).tolist()]),
                          'a result returned by dea3 (%s, %s) was changed by later calls: it now reads (%s, %s)' % (g0.tolist(), e0.tolist(), np.asarray(got).tolist(), np.asarray(gerr).tolist()))
            break
    # iterated use: kept results of three calls are the inputs of a fourth
    try:
        rs = [dea3(np.float64(2.0 + 0.5 ** k), np.float64(2.0 + 0.5 ** (k + 1)), np.float64(2.0 + 0.5 ** (k + 2)))[0] for k in range(3)]
        r4, e4 = dea3(rs[0], rs[1], rs[2])
        if not (np.isfinite(r4).all() and abs(float(r4[0]) - 2.0) <= 1e-9):
            rep.violation('iterated', dict(inputs=[float(v[0]) for v in rs], got=float(r4[0])), 'dea3 applied to three of its own earlier results %s returns %r (limit 2)' % ([float(v[0]) for v in rs], float(r4[0])))
    except Exception as ex:
        rep.violation('raises', dict(), 'iterated dea3 raised %r' % (ex,))
    nguard = guard_region(rep, dea3, random.Random(seed + 3), tier)
    # arrays: all cases at once, each with its own power-of-two scale, several shapes, symmetric flag
    rnd = random.Random(seed)
    narr = 0
    for rnd_round in range(2 if tier == 'quick' else 6):
        order = list(range(len(cases)))
        rnd.shuffle(order)
        n = len(order) - len(order) % 12
        order = order[:n]
        sc = np.array([2.0 ** rnd.randint(-62, 62) * rnd.choice([1, -1]) for _ in order])
        E = np.array([[vlib.fl(q) for q in cases[i]['e']] for i in order]) * sc[:, None]
        want = np.array([expected(cases[i], sc[j]) for j, i in enumerate(order)])
        for shape in [(n,), (n // 4, 4), (n // 12, 3, 4)]:
            v0, v1, v2 = [E[:, k].reshape(shape).copy() for k in range(3)]
            b0, b1, b2 = v0.copy(), v1.copy(), v2.copy()
            if rnd_round % 2:
                for v_ in (v0, v1, v2):
                    v_.flags.writeable = False      # read-only inputs: writing into them would raise
            try:
                got, gerr = dea3(v0, v1, v2)
            except Exception as ex:
                rep.violation('raises-array', dict(shape=shape), 'dea3 raised %r on an array of shape %s' % (ex, shape))
                continue
            narr += 1
            if not (np.array_equal(v0, b0) and np.array_equal(v1, b1) and np.array_equal(v2, b2)):
                rep.violation('inputs-modified', dict(shape=shape), 'dea3 modified its array inputs')
            if np.shape(got) != shape or np.shape(gerr) != shape:
                rep.violation('shape', dict(shape=shape, got=np.shape(got)), 'dea3 output shape %s for input shape %s' % (np.shape(got), shape))
                continue
            # elementwise: identical to the scalar evaluation of each element
            flat, flate = np.ravel(got), np.ravel(gerr)
            for j in range(n):
                s_got, s_err = dea3(E[j, 0], E[j, 1], E[j, 2])
                if not (flat[j] == s_got[0] or (np.isnan(flat[j]) and np.isnan(s_got[0]))) or not (flate[j] == s_err[0]):
                    rep.violation('elementwise', dict(e=cases[order[j]]['e'], scale=float(sc[j]), array=[float(flat[j]), float(flate[j])], scalar=[float(s_got[0]), float(s_err[0])]),
                                  'element %d of a %s array gives (%r, %r) but the same triple alone gives (%r, %r)' % (j, shape, flat[j], flate[j], s_got[0], s_err[0]))
                    break
            if len(shape) > 1:
                # the same logical arrays in other memory layouts (Fortran order, transposed views): elementwise means the same numbers
                for lname, conv in (('F', np.asfortranarray), ('transposed', lambda a_: np.ascontiguousarray(a_.T).T)):
                    try:
                        gl, el = dea3(conv(b0), conv(b1), conv(b2))
                    except Exception as ex:
                        rep.violation('raises-array', dict(shape=shape, layout=lname), 'dea3 raised %r on a %s-layout array of shape %s' % (ex, lname, shape))
                        continue
                    if not (np.shape(gl) == shape and np.array_equal(gl, got, equal_nan=True) and np.array_equal(el, gerr, equal_nan=True)):
                        bad_j = int(np.argmax(~((np.asarray(gl) == got) | (np.isnan(gl) & np.isnan(got))).ravel())) if np.shape(gl) == shape else -1
                        rep.violation('layout', dict(shape=shape, layout=lname, element=bad_j),
                                      'dea3 on the %s-layout copy of a %s array differs from the C-layout result (element %d: %r vs %r)' % (lname, shape, bad_j, np.ravel(gl)[bad_j] if bad_j >= 0 else None, np.ravel(got)[bad_j] if bad_j >= 0 else None))
            if len(shape) == 1:
                gs, es = dea3(v0, v1, v2, symmetric=True)
                if not (np.array_equal(gs, got[:-1]) and np.array_equal(es, gerr[1:])):
                    rep.violation('symmetric', dict(shape=shape), 'symmetric=True is not the plain result with one element trimmed from each output')
    # symmetric=True on short inputs: leading lengths 2, 3 and 5, one- and two-dimensional
    for shape in [(2,), (3,), (5,), (2, 3), (3, 2), (5, 4), (2, 1)]:
        m = int(np.prod(shape))
        idx = [rnd.randrange(len(cases)) for _ in range(m)]
        E = np.array([[vlib.fl(q) for q in cases[i]['e']] for i in idx])
        v0, v1, v2 = [E[:, k].reshape(shape).copy() for k in range(3)]
        try:
            got, gerr = dea3(v0, v1, v2)
            gs, es = dea3(v0, v1, v2, symmetric=True)
        except Exception as ex:
            rep.violation('raises-array', dict(shape=shape), 'dea3 raised %r on an array of shape %s' % (ex, shape))
            continue
        narr += 1
        if not (np.shape(gs) == np.shape(got[:-1]) and np.array_equal(gs, got[:-1]) and np.shape(es) == np.shape(gerr[1:]) and np.array_equal(es, gerr[1:])):
            rep.violation('symmetric:short', dict(shape=shape, got=[list(np.shape(gs)), list(np.shape(es))]),
                          'symmetric=True on inputs of shape %s returns shapes %s / %s: not the plain result with one element trimmed from each output' % (shape, np.shape(gs), np.shape(es)))
    # "arrays of any shape": zero-length dimensions give empty outputs (raise nothing)
    for shape in [(0,), (0, 3), (2, 0)]:
        z = np.zeros(shape)
        try:
            g0, e0 = dea3(z, z.copy(), z.copy())
            gs0, es0 = dea3(z, z.copy(), z.copy(), symmetric=True)
        except Exception as ex:
            rep.violation('raises-array', dict(shape=list(shape)), 'dea3 raised %r on arrays of shape %s' % (ex, shape))
            continue
        narr += 1
        if np.shape(g0) != shape or np.shape(e0) != shape or np.shape(gs0) != np.shape(g0[:-1]) or np.shape(es0) != np.shape(e0[1:]):
            rep.violation('shape', dict(shape=list(shape), got=[list(np.shape(g0)), list(np.shape(gs0))]), 'dea3 on arrays of shape %s returns shapes %s / symmetric %s' % (shape, np.shape(g0), np.shape(gs0)))
    # work arrays that are refilled in place between calls (the function has no memory: what counts is what the arrays hold NOW)
    w0, w1, w2 = np.zeros(6), np.zeros(6), np.zeros(6)
    for rnd_round in range(4):
        Ls = np.array([rnd.choice([1.0, -2.0, 7.0, 0.25]) * (j + 1 + rnd_round) for j in range(6)])
        qs = np.array([rnd.choice([0.5, -0.5, 0.25, 2.0, -3.0, 0.75]) for _ in range(6)])
        w0[:], w1[:], w2[:] = Ls + 1.0, Ls + qs, Ls + qs * qs
        try:
            g_, e_ = dea3(w0, w1, w2)
            f_, fe_ = dea3(w0.copy(), w1.copy(), w2.copy())
            gs_, es_ = dea3(w0, w1, w2, symmetric=True)
        except Exception as ex:
            rep.violation('raises-array', dict(kind='refilled'), 'dea3 raised %r on work arrays refilled in place' % (ex,))
            break
        narr += 1
        if not (np.array_equal(g_, f_, equal_nan=True) and np.array_equal(e_, fe_, equal_nan=True) and np.array_equal(gs_, f_[:-1], equal_nan=True)):
            rep.violation('refilled', dict(round=rnd_round, got=np.asarray(g_).tolist(), fresh=np.asarray(f_).tolist()),
                          'dea3 on work arrays that were refilled in place (round %d) returns %s, on fresh copies of the same numbers %s' % (rnd_round, np.asarray(g_).tolist(), np.asarray(f_).tolist()))
            break
    # ... and on inputs where EVERY element is converged (constant, tied or zero triples): nothing to extrapolate, same trimming;
    # a smaller third operand broadcasts like any numpy operand
    for shape in [(2,), (4,), (3, 2), (5, 1)]:
        for kind in ('constant', 'zero', 'tied'):
            m = int(np.prod(shape))
            c = np.array([rnd.choice([1.0, -3.5, 0.125, 7.0]) * (j + 1) for j in range(m)]).reshape(shape)
            v0, v1, v2 = (c.copy(), c.copy(), c.copy()) if kind == 'constant' else (np.zeros(shape), np.zeros(shape), np.zeros(shape)) if kind == 'zero' else (c + 1.0, c.copy(), c.copy())
            try:
                got, gerr = dea3(v0, v1, v2)
                gs, es = dea3(v0, v1, v2, symmetric=True)
                gb, eb = dea3(v0, v1, v2[:1])
            except Exception as ex:
                rep.violation('raises-array', dict(shape=shape, kind=kind), 'dea3 raised %r on an all-%s array of shape %s' % (ex, kind, shape))
                continue
            narr += 1
            if not (np.shape(got) == shape and np.array_equal(got, v2) and (np.asarray(gerr) >= 0).all()):
                rep.violation('converged-array', dict(shape=shape, kind=kind, got=np.asarray(got).tolist()), 'dea3 on an all-%s array of shape %s returns %s (shape %s), expected the last terms' % (kind, shape, np.asarray(got).tolist(), np.shape(got)))
            elif not (np.shape(gs) == np.shape(got[:-1]) and np.array_equal(gs, got[:-1]) and np.shape(es) == np.shape(gerr[1:]) and np.array_equal(es, gerr[1:])):
                rep.violation('symmetric:converged', dict(shape=shape, kind=kind, got=[list(np.shape(gs)), list(np.shape(es))]),
                              'symmetric=True on an all-%s input of shape %s returns shapes %s / %s: not the plain result with one element trimmed from each output' % (kind, shape, np.shape(gs), np.shape(es)))
            elif np.shape(gb) != shape:
                rep.violation('broadcast', dict(shape=shape, kind=kind, got=list(np.shape(gb))), 'dea3(v0, v1, v2[:1]) on all-%s inputs of shape %s returns shape %s: the operands broadcast to %s' % (kind, shape, np.shape(gb), shape))
    states, trans, per = vlib.merge_tlc([res])
    cov = dict(states=states, transitions=trans, traces_validated_against_impl=nscalar + narr, guard_region_triples=nguard, scalar_replays=nscalar, array_replays=narr,
               samples=[cases[3], cases[-3]], evaluations=nscalar + narr, skipped_outside_exact_domain=skipped,
               distinct_nontrivial=len([r for r in cases if not r['d3']['conv']]), exhaustive=True, scales=scales,
               rule='every triple of a 9-value grid plus geometric triples L + a q^j; non-trivial = not in the converged/guard branch', tlc=per)
    assum = ['on the exact domain a difference below max|e|*EPS is a zero difference (DomainOK)',
             'magnitudes beyond the exact domain only through the scale-covariance lemma (powers of two, 2^-62 .. 2^62 quick, 2^-70 .. 2^62 thorough)',
             'rounding tolerance 64*eps*magnitude*conditioning of the three-term Shanks formula']
    return cov, assum
