"""C02 - reported error estimate is honest; the full_output record is self-consistent.

spec/Pipeline.tla is the stage-by-stage length/index model of one call (rule -> Richardson ->
Wynn -> best estimate); TLC checks InvRows/InvRecord for every (steps, rule length, Richardson
terms, columns) and emits the table (rows left, whether the Wynn stage runs).  Replay over the
ExprMachine programs (exact jets, C01) and the MC_Multi functions (exact gradients/Hessians):
  honesty   |result - exact| <= K * error_estimate + floor * sigma   (K, floor from envelopes.json)
  record    f_value = f(x) bit for bit; estimate finite and >= 0 where the result is finite;
            error_estimate / final_step have exactly the result's shape; the reported index and
            final_step are a behaviour of Pipeline (row of the last stage, generated step number
            row + 2*[Wynn], own column)."""
import json, os, math, random, collections
import numpy as np
import vlib, exprs, multi
import c01

ENV = json.load(open(os.environ.get('VERIF_ENVELOPES') or os.path.join(vlib.VERIF, 'envelopes.json')))
K_HONEST = ENV['honesty']['K']
TIGHT = ENV['honesty'].get('tight', dict(K=1e4, C=1e4, C_one_sided=1e6))
EPS = np.finfo(float).eps
RECS = None
MREC = None


def pipeline_table():
    cfg = """CONSTANTS
  SMax = 26
  EmitOn = TRUE
SPECIFICATION Spec
CHECK_DEADLOCK FALSE
INVARIANT InvRows
INVARIANT InvRecord
CONSTRAINT Emit
"""
    r = vlib.tlc('Pipeline', cfg_text=cfg, timeout=1800)
    if r.violated:
        raise vlib.MachineryError('Pipeline violates %s' % r.violated)
    vlib.require_ok(r)
    return r, {(x['S'], x['nr'], x['rt']): (x['rows'], x['wynn']) for x in r.records}


def record_checks(d, x, val, info, f, table, rterms, passthrough=False, tame=True):
    """returns list of problems with the full_output record (public information only)"""
    probs = []
    xi = np.asarray(x)
    val = np.asarray(val)
    est, fin, idx = np.asarray(info.error_estimate), np.asarray(info.final_step), np.asarray(info.index)
    def compatible(a):
        if a.size != val.size:
            return False
        try:
            return np.broadcast_shapes(a.shape, val.shape) in (a.shape, val.shape)
        except ValueError:
            return False
    if not (compatible(est) and compatible(fin)):
        probs.append('shape: error_estimate %s / final_step %s for a result of shape %s' % (est.shape, fin.shape, val.shape))
        return probs
    est, fin = est.reshape(val.shape), fin.reshape(val.shape)
    finite = np.isfinite(val)
    if tame and not (np.isfinite(est[finite]).all() and (est[finite] >= 0).all()):
        probs.append('estimate: error_estimate %s not finite and non-negative where the result is finite' % est.ravel()[:4].tolist())
    try:
        fx = f(xi)
        if hasattr(info, 'f_value') and not (np.shape(info.f_value) == np.shape(fx) and np.array_equal(np.asarray(info.f_value), np.asarray(fx), equal_nan=True)):
            probs.append('f_value: record holds %r, f(x) = %r' % (np.ravel(info.f_value)[:3].tolist(), np.ravel(fx)[:3].tolist()))
    except Exception:
        pass
    steps = [np.asarray(s) for s in d.step(xi, d.method, d.n, d.method_order)] if d.n else [np.zeros_like(xi, dtype=float)]
    S = len(steps)
    if d.n and S and tame:
        # "final_step lies within the range of the generated steps" (every class; which row it is exactly is decided below where the
        # Pipeline table applies)
        mags = np.abs(np.concatenate([np.ravel(s_) for s_ in steps]))
        fabs = np.abs(fin[finite]) if finite.any() else np.zeros(0)
        if mags.size and fabs.size and not ((fabs >= mags.min() * (1 - 1e-12)).all() and (fabs <= mags.max() * (1 + 1e-12)).all()):
            probs.append('final_step: %s outside the range of the generated steps [%.3g, %.3g]' % (np.ravel(fin)[:4].tolist(), mags.min(), mags.max()))
    if d.n == 0 or d.method == 'multicomplex' or passthrough:
        nr = 0
    else:
        ratio = d.step.step_generator_function(xi, d.method, d.n, d.method_order).step_ratio
        nr = d.fd_rule.rule(ratio).size - 1
    key = (S, nr, rterms if d.n else 0)
    if key not in table:
        return probs
    rows, wynn = table[key]
    ncols = val.size
    if idx.size != ncols:
        probs.append('index: %d indices for %d result entries' % (idx.size, ncols))
        return probs
    for c in range(ncols):
        i = int(idx.ravel()[c])
        if i % ncols != c or not (0 <= i // ncols < rows):
            probs.append('index: entry %d reports flat index %d; Pipeline allows row*%d+%d with row < %d' % (c, i, ncols, c, rows))
            break
        srow = i // ncols + (2 if wynn else 0)
        h = np.broadcast_to(steps[srow], val.shape).ravel()[c] if d.n else 0.0
        if not fin.ravel()[c] == h:
            probs.append('final_step: entry %d reports %r; Pipeline says generated step #%d = %r' % (c, fin.ravel()[c], srow, h))
            break
    return probs


def stage_honesty(rep):
    """the extrapolation stage on TLC-enumerated synthetic sequences with a known limit"""
    from numdifftools.limits import _Limit
    from numdifftools.extrapolation import Richardson
    cfg = "CONSTANT EmitOn = TRUE\nINIT Init\nNEXT Next\nCHECK_DEADLOCK FALSE\nINVARIANT InvLimit\nCONSTRAINT Emit\n"
    res = vlib.tlc('MC_Honesty', cfg_text=cfg)
    vlib.require_ok(res)
    K = ENV['honesty']['K_stage']
    worst = 0.0
    for c in res.records:
        S = c['S']
        h = 2.0 ** -np.arange(S)
        v = (c['L'] + sum((j + 1.0) * h ** (c['order'] + c['step'] * j) for j in range(c['nt']))
             + c['b'] * h ** (c['order'] + c['step'] * (c['nt'] + c['dq'])) + c['nu'] * (-1.0) ** np.arange(S) * 2.0 ** -c['e'])
        # three columns (scaled copies): estimates must be honest per column
        V = np.stack([v, 2.0 * v, v * 0.25 - 1.0], axis=1)
        Ls = np.array([c['L'], 2.0 * c['L'], c['L'] * 0.25 - 1.0])
        lim = _Limit()
        lim.richardson = Richardson(step_ratio=2.0, step=c['step'], order=c['order'], num_terms=c['nt'])
        try:
            with np.errstate(all='ignore'):
                der, info = lim._extrapolate(V.copy(), np.stack([h] * 3, axis=1), (3,))
        except Exception as ex:
            rep.violation('stage-raises', dict(case=c), 'extrapolation stage raised %r on %s' % (ex, c))
            continue
        err = np.abs(der - Ls)
        est = np.asarray(info.error_estimate)
        floor = 1e-15 * np.maximum(np.abs(Ls), 1.0)
        worst = max(worst, float(np.max((err - floor) / np.maximum(est, 1e-300))))
        if not ((est >= 0).all() and (err <= K * est + floor).all()):
            rep.violation('stage-dishonest', dict(case=c, result=der.tolist(), limits=Ls.tolist(), error_estimate=est.tolist()),
                          'extrapolation of the sequence %s (limit %s): result %s, error estimate %s does not cover the error' % (c, Ls.tolist(), der.tolist(), est.tolist()))
    return res, worst


def run_prog_case(case):
    vlib.use_repo()
    import numdifftools as nd
    table, (pi, m, n, order, a, kind, sk, arr, cval) = case
    r = RECS[pi]
    c = r['c'][0] / r['c'][1]
    f0 = exprs.make_fun(r['prog'], c, a, powop=['int', False, 'float', False, 'npint', False][(pi + n + order) % 6], p=r.get('p', 0.0))
    jf = np.array(exprs.jet_floats(r['jet']))
    s0 = float(np.max(np.abs(jf)))
    seen = [0.0, 0.0]

    def f(z):
        with np.errstate(all='ignore'):
            v = f0(z)
        if hasattr(z, 'z1'):
            pts, vals = [z.z1 - 1j * z.z2, z.z1 + 1j * z.z2], [v.z1 - 1j * v.z2, v.z1 + 1j * v.z2]
        else:
            pts, vals = [z], [v]
        for p, w in zip(pts, vals):
            du = np.asarray(p, dtype=complex) - a
            t = np.zeros_like(du)
            for ck in jf[::-1]:
                t = t * du + ck
            with np.errstate(all='ignore'):
                dev = np.abs(t - w)
            dev = np.where(np.isfinite(dev), dev, np.inf)
            seen[0] = max(seen[0], float(np.max(dev)))
            seen[1] = max(seen[1], float(np.max(np.abs(t))))
        return v
    x = np.array([a, a + 0.0]) if arr else a
    rt = 2
    try:
        with np.errstate(all='ignore'):
            d = nd.Derivative(f, n=n, method=m, order=order, step=c01.build_step(sk), full_output=True)
            val, info = d(x)
            tame = seen[0] <= 1e-3 * s0 and seen[1] <= 100.0 * s0
            probs = record_checks(d, x, val, info, f0, table, rt, tame=tame)
    except Exception as ex:
        return ('raise', '%s: %s' % (type(ex).__name__, str(ex)[:160]))
    v = np.asarray(val).ravel()
    return ('ok', [complex(t) for t in v], [float(t) for t in np.asarray(info.error_estimate).ravel()], probs, tame,
            dict(h=[float(abs(t)) for t in np.asarray(info.final_step).ravel()], maxf=seen[1]))


def run_single_case(case):
    """a scalar step gives ONE finite-difference estimate: no extrapolation, the error estimate comes from the
    single-estimate branch of Richardson; it must still cover the (pure truncation) error, in particular where the exact
    derivative vanishes"""
    vlib.use_repo()
    import numdifftools as nd
    pi, m, n, h, a = case
    r = RECS[pi]
    c = r['c'][0] / r['c'][1]
    f = exprs.make_fun(r['prog'], c, a)
    try:
        with np.errstate(all='ignore'):
            v, info = nd.Derivative(f, n=n, method=m, order=2, step=h, full_output=True)(a)
        return ('ok', float(np.real(v)), float(np.ravel(info.error_estimate)[0]))
    except Exception as ex:
        return ('raise', '%s: %s' % (type(ex).__name__, str(ex)[:120]))


def run_anchor_case(case):
    vlib.use_repo()
    import numdifftools as nd
    pi, m, n, order, a = case
    r = RECS[pi]
    f = exprs.make_fun(r['prog'], r['c'][0] / r['c'][1], a)
    try:
        with np.errstate(all='ignore'):
            v, info = nd.Derivative(f, n=n, method=m, order=order, full_output=True)(a)
        return ('ok', float(np.real(v)), float(np.ravel(info.error_estimate)[0]))
    except Exception as ex:
        return ('raise', '%s: %s' % (type(ex).__name__, str(ex)[:120]))


def run_multi_case(case):
    vlib.use_repo()
    import numdifftools as nd
    table, (ri, cls, method, order) = case
    rec = MREC[ri]
    n = rec['n']
    x0 = np.array(multi.X0[:n])
    try:
        with np.errstate(all='ignore'):
            if cls == 'Nested':
                # re-entrant use: the Jacobian of a function that itself evaluates a Gradient of the same dimension (the Hessian idiom)
                g = multi.comp_fun(rec['comps'][0], list(x0))
                inner = nd.Gradient(g, method='central')
                val, info = nd.Jacobian(lambda z: inner(z), method=method, order=order, full_output=True)(x0)
                probs = []
            elif cls == 'Jacobian':
                f = multi.vector_fun(rec, list(x0))
                d = nd.Jacobian(f, method=method, order=order, full_output=True)
                val, info = d(x0)
                probs = record_checks(d, x0, val, info, f, {}, 2)
            else:
                F = multi.comp_fun(rec['comps'][0], list(x0))
                d = getattr(nd, cls)(F, method=method, full_output=True, **({} if cls == 'Hessian' else dict(order=order)))
                val, info = d(x0 if n > 1 or cls != 'Gradient' else x0[0])
                probs = record_checks(d, x0 if cls != 'Gradient' else np.ravel(x0), val, info, F, table if cls in ('Hessdiag',) else {}, 2)
    except Exception as ex:
        return ('raise', '%s: %s' % (type(ex).__name__, str(ex)[:160]))
    return ('ok', np.asarray(val).tolist(), np.asarray(info.error_estimate).tolist(), probs)


def run(tier, rep):
    global RECS, MREC
    seed = vlib.seed_from_env()
    pres, table = pipeline_table()
    results = c01.tlc_programs(tier)
    recs = [r for res in results for r in res.records if all(q[1] != 0 for q in r['jet'])]
    seen, uniq = set(), []
    for r in recs:
        k = (tuple(r['prog']), tuple(r['c']))
        if k not in seen:
            seen.add(k)
            uniq.append(r)
    ngen0 = len(uniq)
    uniq = uniq + c01.generic_records(uniq, tier, seed + 1)
    RECS = c01.RECS = uniq
    cases = c01.make_cases(uniq, tier, seed + 1)
    outs = vlib.pool_map(run_prog_case, [(table, c) for c in cases], chunksize=16)
    nchk = nrec = untamed = 0
    ratios = []
    ntight = tight_beyond = 0
    tight_cells = {}
    for case, o in zip(cases, outs):
        pi, m, n, order, a, kind, sk, arr, cval = case
        r = uniq[pi]
        name = '%s @ c=%s a=%r%s | %s n=%d order=%d step=%s%s' % ('.'.join(r['prog']), '/'.join(map(str, r['c'])), a, ' inner point %r' % r['p'] if 'p' in r else '', m, n, order, kind, ' array' if arr else '')
        if o[0] == 'raise':
            continue                       # C01 reports raising calls
        _, vals, est, probs, tame, extra = o
        for p in probs[:1]:
            rep.violation('record:' + p.split(':')[0], dict(prog=r['prog'], c=r['c'], a=a, method=m, n=n, order=order, step=[kind, sk]), '%s: %s' % (name, p))
        nrec += 1
        if n > len(r['jet']) - 1 or not tame:
            untamed += 1
            continue
        exact = exprs.exact_derivative(r['jet'], n)
        sigma = c01.generic_sigma(r, n, a)
        floor = ENV['derivative'][m][str(n)].get(kind, 1.0) * sigma if str(n) in ENV['derivative'][m] else sigma
        s0j = max([abs(t) for t in exprs.jet_floats(r['jet'])] + [r.get('iscale', 0.0)])
        for v, e in zip(vals, est):
            if not np.isfinite(v):
                continue
            err = abs(v - exact)
            nchk += 1
            if err > floor and e > 0 and not c01.cell_suffix(r, m, n):
                ratios.append(((err - floor) / e, name))
            # honesty proper (no accuracy envelope involved): beyond the ROUNDING floor of an n-th difference with the step the library
            # settled on, eps * (size of f) / h^n, the estimate has to cover the error up to the fixed factor K_tight
            hh = extra['h'][min(len(extra['h']) - 1, vals.index(v))] if extra['h'] else 0.0
            if hh > 0 and not c01.cell_suffix(r, m, n):
                rfloor = TIGHT['C_one_sided' if m in ('forward', 'backward') else 'C'] * 2.0 ** n * EPS * max(extra['maxf'], s0j) / hh ** n + 1e-12 * abs(exact)      # an n-th difference sums 2^n function values
                ntight += 1
                if err > rfloor:
                    tight_beyond += 1
                    tight_cells[(m, n, kind)] = max(tight_cells.get((m, n, kind), 0.0), (err - rfloor) / max(e, 1e-300))
                if not err <= TIGHT['K'] * e + rfloor:
                    rep.violation('dishonest-tight:%s:n=%d:%s' % (m, n, kind), dict(prog=r['prog'], c=r['c'], a=a, inner=r.get('p', 0.0), method=m, n=n, order=order, step=[kind, sk], got=[v.real, v.imag], exact=exact, error_estimate=e, final_step=hh, rounding_floor=rfloor),
                                  '%s: |result - exact| = %.3g, error_estimate = %.3g, rounding floor eps*|f|/h^n = %.3g (final step %.3g): the estimate is %.3g times too small' % (name, err, e, rfloor, hh, (err - rfloor) / max(e, 1e-300)))
                    break
            if not err <= K_HONEST * e + floor:
                rep.violation('dishonest:%s:n=%d%s' % (m, n, c01.cell_suffix(r, m, n)), dict(prog=r['prog'], c=r['c'], a=a, inner=r.get('p', 0.0), method=m, n=n, order=order, step=[kind, sk], got=[v.real, v.imag], exact=exact, error_estimate=e, floor=floor),
                              '%s: |result - exact| = %.3g but error_estimate = %.3g (K = %g, floor %.3g)' % (name, err, e, K_HONEST, floor))
                break
    # anchors: on well-conditioned functions (exp, sin, cosh) the estimate ITSELF has to cover the error - no accuracy
    # envelope is involved, only a rounding floor relative to the exact value (worst ratio observed: 5.5)
    acases = []
    for pi, r in enumerate(uniq[:ngen0]):
        if r['prog'] in [list(p) for p in c01.ANCHOR_PROGS] and r['c'][0] / r['c'][1] in (1.0, 3.0):
            for m in ('central', 'forward', 'backward', 'complex', 'multicomplex'):
                for n in range(1, c01.NMAX[m] + 1):
                    if n <= len(r['jet']) - 1 and exprs.exact_derivative(r['jet'], n) != 0:
                        for order in ((2, 3, 6) if tier == 'quick' else range(1, 9)):
                            for a in (0.5, -2.0, 30.0):
                                acases.append((pi, m, n, order, a))
    nanchor, anchor_beyond, anchor_worst = 0, 0, 0.0
    for (pi, m, n, order, a), o in zip(acases, vlib.pool_map(run_anchor_case, acases, chunksize=32)):
        if o[0] != 'ok' or not np.isfinite(o[1]):
            continue
        r = uniq[pi]
        exact = exprs.exact_derivative(r['jet'], n)
        err, est = abs(o[1] - exact), o[2]
        nanchor += 1
        if err > 1e-12 * abs(exact):
            anchor_beyond += 1
            if (m, n) not in (('forward', 8), ('backward', 8)):
                anchor_worst = max(anchor_worst, err / max(est, 1e-300))
        if not (est >= 0 and err <= K_HONEST * est + 1e-12 * abs(exact)):
            key = 'dishonest:anchor:%s:n=%d' % (m, n)
            rep.violation(key, dict(prog=r['prog'], c=r['c'], a=a, method=m, n=n, order=order, got=o[1], exact=exact, error_estimate=est),
                          'anchor %s @ c=%s a=%r | %s n=%d order=%d: |result - exact| = %.3g but error_estimate = %.3g' % ('.'.join(r['prog']), '/'.join(map(str, r['c'])), a, m, n, order, err, est))
    # single-estimate calls (scalar step)
    rnds = random.Random(seed + 3)
    scases = []
    for pi, r in enumerate(uniq[:ngen0]):
        if not r['entire'] or (tier == 'quick' and rnds.random() > 0.5):
            continue
        for m in ('central', 'forward', 'backward', 'complex'):
            n = rnds.choice([1, 2])
            if len(r['jet']) > n:
                scases.append((pi, m, n, rnds.choice([1e-3, 1e-4, 1e-5, -1e-3, -1e-4]), rnds.choice([0.0, 1.0, -0.125, 3.0])))      # a negative scalar step is a step too
    KS = ENV['honesty']['K_single']
    single_worst, nsingle, nzero = 0.0, 0, 0
    for (pi, m, n, h, a), o in zip(scases, vlib.pool_map(run_single_case, scases, chunksize=32)):
        if o[0] != 'ok' or not np.isfinite(o[1]):
            continue
        r = uniq[pi]
        exact = exprs.exact_derivative(r['jet'], n)
        s0 = max(abs(t) for t in exprs.jet_floats(r['jet']))
        floor = 1e3 * np.finfo(float).eps * s0 / abs(h) ** n
        err = abs(o[1] - exact)
        nsingle += 1
        nzero += exact == 0
        if err > floor:
            single_worst = max(single_worst, err / max(o[2], 1e-300))
        if not (o[2] >= 0 and err <= KS * o[2] + floor):
            rep.violation('dishonest:single-estimate:%s' % m, dict(prog=r['prog'], c=r['c'], a=a, method=m, n=n, step=h, got=o[1], exact=exact, error_estimate=o[2]),
                          '%s @ c=%s a=%r | %s n=%d step=%g (one estimate): |result - exact| = %.3g but error_estimate = %.3g (exact derivative %r)' % ('.'.join(r['prog']), '/'.join(map(str, r['c'])), a, m, n, h, err, o[2], exact))
    sres, stage_worst = stage_honesty(rep)
    bres, nbest = best_stage(rep, tier)
    # multivariate classes
    mres = vlib.tlc('MC_Multi', cfg_text=open(vlib.SPEC + '/MC_Multi.cfg').read().replace('Ns = {1, 2, 3, 5, 8}', 'Ns = {1, 2, 3, 5}').replace('Ms = {1, 2, 3, 6}', 'Ms = {1, 3}').replace('Ks = {0, 1, 2, 4}', 'Ks = {0, 2}'), tag='MC_Multi_c02', timeout=1800)
    vlib.require_ok(mres)
    MREC = mres.records
    rnd = random.Random(seed)
    mcases = []
    for ri, rec in enumerate(MREC):
        if rec['what'] == 'jac':
            for method in ['central', 'forward', 'backward', 'complex', 'multicomplex']:
                if rnd.random() < (0.3 if tier == 'quick' else 1.0):
                    mcases.append((ri, 'Jacobian', method, rnd.choice([2, 4])))
                if rec['m'] == 1 and rec['k'] == 0 and rnd.random() < 0.5:
                    mcases.append((ri, 'Gradient', method, 2))
        else:
            for method in ['central', 'central2', 'forward', 'backward', 'complex', 'multicomplex']:
                mcases.append((ri, 'Hessian', method, 2))
                mcases.append((ri, 'Hessdiag', method, rnd.choice([2, 4])))
            if rec['n'] in (2, 3):
                for method in ['central', 'forward', 'backward']:
                    mcases.append((ri, 'Nested', method, 2))
    mouts = vlib.pool_map(run_multi_case, [(table, c) for c in mcases], chunksize=8)
    for (ri, cls, method, order), o in zip(mcases, mouts):
        rec = MREC[ri]
        name = '%s %s order=%d | n=%d m=%d k=%d kind=%s' % (cls, method, order, rec['n'], rec['m'], rec['k'], rec['kind'])
        if o[0] == 'raise':
            continue
        _, val, est, probs = o
        for p in probs[:1]:
            rep.violation('record:%s:%s' % (cls, p.split(':')[0]), dict(case=name), '%s: %s' % (name, p))
        nrec += 1
        x0 = multi.X0[:rec['n']]
        sc = multi.scale_of(rec, x0)
        if cls == 'Jacobian':
            want = multi.jac_exact(rec)
            floor = 10.0 * ENV['derivative'][method]['1']['default'] * sc
        elif cls == 'Gradient':
            want = np.array(multi.vec(rec['grads'][0])).reshape(np.shape(val))
            floor = 10.0 * ENV['derivative'][method]['1']['default'] * sc
        elif cls == 'Nested':
            want = np.array([multi.vec(r) for r in rec['hess']])
            floor = 1e-5 * sc             # the inner central Gradient is itself only accurate to about 1e-10, and the outer rule differentiates that noise
        else:
            H = np.array([multi.vec(r) for r in rec['hess']])
            want = H if cls == 'Hessian' else np.diag(H)
            floor = ENV['hessian'][method]['smooth'] * sc * (ENV['hessian']['hessdiag_factor'] if cls == 'Hessdiag' else 1.0)
        err = np.abs(np.asarray(val) - want)
        e = np.asarray(est)
        nchk += err.size
        if err.shape != e.shape:
            try:
                e = np.broadcast_to(e.reshape(-1) if e.size == err.size else e, err.shape) if e.size != err.size else e.reshape(err.shape)
            except ValueError:
                rep.violation('record:%s:estimate-shape' % cls, dict(case=name, value_shape=list(err.shape), estimate_shape=list(np.shape(est))), '%s: error_estimate of shape %s cannot be matched with the value of shape %s' % (name, np.shape(est), err.shape))
                continue
        if os.environ.get('VERIF_SURVEY'):
            tight = 1e-11 * sc
            msk = err > tight
            if msk.any():
                print('SURVEYM %s %s %.3g' % (cls, method, float((err[msk] / np.maximum(e[msk], 1e-300)).max())))
        # honesty proper: beyond a rounding-level floor the ESTIMATE has to cover the error (the accuracy envelopes of C03/C04 play no
        # part here; worst error/estimate observed beyond this floor: 0.71)
        floor = min(floor, 1e-10 * sc) if cls != 'Nested' else floor
        bad = err > K_HONEST * e + floor
        if bad.any():
            i = int(np.argmax(bad))
            rep.violation('dishonest:%s:%s' % (cls, method), dict(case=name, error=float(err.ravel()[i]), error_estimate=float(e.ravel()[i]), floor=floor),
                          '%s: entry %d is off by %.3g but its error_estimate is %.3g' % (name, i, err.ravel()[i], e.ravel()[i]))
    if os.environ.get('VERIF_SURVEY'):
        ratios.sort(reverse=True)
        for rt_, nm in ratios[:25]:
            print('SURVEY ratio %.3g | %s' % (rt_, nm[:150]))
        print('SURVEY count beyond floor', len(ratios))
    states, trans, per = vlib.merge_tlc([pres, mres, sres] + bres + results)
    cov = dict(states=states, transitions=trans, traces_validated_against_impl=nrec, honesty_checks=nchk, records_checked=nrec,
               beyond_floor=len(ratios), outside_tame_domain=untamed, worst_error_over_estimate=max([r_[0] for r_ in ratios] + [0.0]),
               samples=[dict(prog=uniq[12]['prog'], c=uniq[12]['c']), dict(pipeline=pres.records[100])], evaluations=nchk,
               distinct_nontrivial=len(ratios) + nrec // 2,
               rule='Pipeline: every (S<=26, rule length, Richardson terms, columns) exhaustively; replay: the C01 program/config sample (including cases outside the tame domain) and MC_Multi cases for Gradient/Jacobian/Hessdiag/Hessian; non-trivial = result beyond the accuracy floor (the estimate has to cover it)',
               K=K_HONEST, K_stage=ENV['honesty']['K_stage'], stage_sequences=len(sres.records), selection_tables_replayed=nbest, tight_checks=ntight, tight_beyond_rounding=tight_beyond, tight_worst_error_over_estimate=max([v_ for k_, v_ in tight_cells.items() if not ((k_[0] == 'complex' and k_[1] >= 3 and k_[2] == 'default') or (k_[0] in ('forward', 'backward') and k_[1] >= 6 and k_[2] == 'default'))] + [0.0]), anchor_honesty_checks=nanchor, anchor_beyond_rounding=anchor_beyond, anchor_worst_error_over_estimate=anchor_worst, single_estimate_calls=nsingle, single_estimate_zero_derivative=int(nzero), single_estimate_worst_ratio=single_worst, stage_worst_error_over_estimate=stage_worst, tlc=per)
    assum = ['honesty bound |err| <= K*error_estimate + floor*sigma with K and floor from envelopes.json',
             'record clauses use public information only: info tuple, d.step(...) regenerated, rule length from the object\'s LogRule']
    return cov, assum


def best_stage(rep, tier):
    """The selection stage (_add_error_to_outliers -> _get_arg_min -> _get_best_estimate) against its
    transcription spec/BestEstimate.tla: every table TLC enumerates, as a single column, as columns of
    one matrix (per-column independence), and as real/imaginary parts of a complex column."""
    from fractions import Fraction as Fr
    from numdifftools.limits import _Limit
    cfg = open(vlib.SPEC + '/MC_Best.cfg').read()
    res = vlib.tlc('MC_Best', cfg_text=cfg.replace('Ns = {3, 4, 5}', 'Ns = {3, 4}' if tier == 'quick' else 'Ns = {3, 4, 5}'), timeout=3000)
    vlib.require_ok(res)
    # longer tables: random behaviours of the same specification
    sim = vlib.tlc('MC_Best', cfg_text=cfg.replace('Ns = {3, 4, 5}', 'Ns = {5, 6, 7}' if tier == 'quick' else 'Ns = {6, 7, 8, 9}'), simulate='num=%d' % (500 if tier == 'quick' else 1500), depth=12,
                   seed=vlib.seed_from_env() + 5, tag='MC_Best_sim', timeout=3000)
    vlib.require_ok(sim)
    if not res.records or not sim.records:
        raise vlib.MachineryError('MC_Best emitted no tables')
    recs = [r for r in res.records + sim.records if r['valid']]
    fl = lambda q: q[0] / q[1]
    n = 0

    def call(der, err):
        steps = np.outer(2.0 ** -np.arange(der.shape[0]), np.ones(der.shape[1]))
        with np.errstate(all='ignore'):
            val, info = _Limit._get_best_estimate(der.copy(), err.copy(), steps, (der.shape[1],))
        return np.asarray(val), np.asarray(info.error_estimate), np.asarray(info.index), np.asarray(info.final_step), steps

    byN = {}
    for r in recs:
        byN.setdefault(len(r['der']), []).append(r)
    for N, lst in sorted(byN.items()):
        # all tables of this length as columns of one matrix, in chunks (also decides per-column independence)
        for lo in range(0, len(lst), 257):
            chunk = lst[lo:lo + 257]
            der = np.array([[fl(q) for q in r['der']] for r in chunk]).T
            err = np.array([[fl(q) for q in r['err']] for r in chunk]).T
            try:
                val, est, idx, fstep, steps = call(der, err)
            except Exception as ex:
                rep.violation('best-raises', dict(N=N, chunk=lo), 'the selection stage raised %r on a %dx%d table' % (ex, N, len(chunk)))
                continue
            rows = np.asarray(idx) // len(chunk) if np.ndim(idx) else np.array([idx // len(chunk)])
            for j, r in enumerate(chunk):
                n += 1
                want_v, want_e = fl(r['value']), fl(r['error'])
                row = int(np.unravel_index(int(np.ravel(idx)[j]), der.shape)[0])
                col = int(np.unravel_index(int(np.ravel(idx)[j]), der.shape)[1])
                if col != j:
                    rep.violation('best-column', dict(der=r['der'], err=r['err'], column=j, picked_column=col), 'column %d of the table took its estimate from column %d' % (j, col))
                    continue
                if row != r['row'] or val[j] != want_v or abs(est[j] - want_e) > 1e-12 * max(1.0, want_e) or fstep[j] != steps[row, j]:
                    rep.violation('best-row', dict(der=r['der'], err=r['err'], spec=dict(row=r['row'], value=want_v, error=want_e), code=dict(row=row, value=float(val[j]), error=float(est[j]), final_step=float(fstep[j]))),
                                  'estimates %s with errors %s: the specification selects row %d (value %g, penalised error %g), the code row %d (value %g, error %g, final step %g)' % (
                                      [fl(q) for q in r['der']], [fl(q) for q in r['err']], r['row'], want_v, want_e, row, val[j], est[j], fstep[j]))
        # complex column: penalties of real and imaginary parts add; argmin recomputed here from the spec's penalties
        rnd = random.Random(N)
        for _ in range(400 if tier == 'quick' else 3000):
            a, b = rnd.choice(lst), rnd.choice(lst)
            tot = [Fr(*ea) + Fr(*pa) + Fr(*pb) for ea, pa, pb in zip(a['err'], a['pen'], b['pen'])]
            mn = min(tot)
            ties = [i for i, t in enumerate(tot) if t == mn]
            wrow = ties[len(ties) // 2]
            der = (np.array([fl(q) for q in a['der']]) + 1j * np.array([fl(q) for q in b['der']])).reshape(-1, 1)
            err = np.array([fl(q) for q in a['err']]).reshape(-1, 1)
            try:
                val, est, idx, fstep, steps = call(der, err)
            except Exception as ex:
                rep.violation('best-raises:complex', dict(re=a['der'], im=b['der']), 'the selection stage raised %r on a complex column' % (ex,))
                continue
            n += 1
            row = int(np.ravel(idx)[0])
            if row != wrow or abs(est[0] - float(mn)) > 1e-12 * max(1.0, float(mn)) or val[0] != der[wrow, 0]:
                rep.violation('best-row:complex', dict(re=a['der'], im=b['der'], err=a['err'], spec=dict(row=wrow, error=float(mn)), code=dict(row=row, error=float(est[0]))),
                              'complex estimates %s with errors %s: the specification selects row %d (penalised error %g), the code row %d (error %g)' % (der.ravel().tolist(), err.ravel().tolist(), wrow, float(mn), row, est[0]))
    return [res, sim], n
