"""C15 - fd_weights equal the exact Lagrange-derivative weights for any nodes.

spec/Fornberg.tla defines the weights by the Lagrange definition and transcribes the Fornberg
recursion of _fd_weights_all as a loop machine; MC_Fornberg proves the two equal for every ordered
tuple of distinct nodes of a small rational set and every expansion point of a grid, and emits
the exact tables.  Every case is replayed into fd_weights_all / fd_weights for all n < len(x),
at several power-of-two scalings of the nodes (homogeneity lemma InvScaling), in two orders."""
import random
import numpy as np
import vlib

EPS = np.finfo(float).eps


def tlc_cases(tier):
    base = open(vlib.SPEC + '/MC_Fornberg.cfg').read()
    runs = [('f23', base)]
    if tier == 'quick':
        runs.append(('f4', base.replace('Sizes = {2, 3}', 'Sizes = {4}').replace('X0s <- X0sStd', 'X0s <- X0sFew')))
    else:
        runs.append(('f4', base.replace('Sizes = {2, 3}', 'Sizes = {4}')))
        runs.append(('f5', base.replace('Sizes = {2, 3}', 'Sizes = {5}').replace('X0s <- X0sStd', 'X0s <- X0sFew').replace('Values <- ValuesStd', 'Values <- ValuesSeven')))
    out = []
    for tag, cfg in runs:
        r = vlib.tlc('MC_Fornberg', cfg_text=cfg, tag=tag, timeout=3000)
        if r.violated:
            raise vlib.MachineryError('MC_Fornberg (%s) violates %s\n%s' % (tag, r.violated, r.out[-1500:]))
        vlib.require_ok(r)
        out.append(r)
    return out


def check_case(fb, rec, c, rep, stats, held=None):
    x = np.array([vlib.fl(q) for q in rec['x']]) * c
    x.flags.writeable = False               # the caller's nodes are never written to
    x0 = vlib.fl(rec['x0']) * c
    W = np.array([[vlib.fl(q) for q in row] for row in rec['W']])
    m = len(x)
    for n in range(m):
        try:
            got = fb.fd_weights_all(x, x0, n)
            row = fb.fd_weights(x, x0, n)
        except Exception as ex:
            rep.violation('raises', dict(x=rec['x'], x0=rec['x0'], n=n, scale=c), 'fd_weights_all raised %r' % (ex,))
            return
        stats['calls'] += 1
        if held is not None and len(held) < 6000:
            held.append((rec, n, c, got, np.array(got, dtype=float, copy=True), row, np.array(row, dtype=float, copy=True)))   # what the caller keeps
        if np.shape(got) != (n + 1, m):
            rep.violation('shape', dict(x=rec['x'], x0=rec['x0'], n=n, got=list(np.shape(got))), 'fd_weights_all returned shape %s, expected %s' % (np.shape(got), (n + 1, m)))
            return
        for k in range(n + 1):
            want = W[k] * c ** (-k)
            tol = 64 * EPS * np.abs(want).sum() * m + 1e-300
            err = np.abs(got[k] - want).max()
            stats['max_ratio'] = max(stats['max_ratio'], err / tol)
            if not err <= tol:
                rep.violation('weights:row%d' % k, dict(x=rec['x'], x0=rec['x0'], n=n, scale=c, row=k, got=got[k].tolist(), want=want.tolist()),
                              'fd_weights_all(x=%s, x0=%r, n=%d)[%d] = %s, exact Lagrange-derivative weights %s' % (x.tolist(), x0, n, k, got[k].tolist(), want.tolist()))
                return
        if not np.array_equal(row, got[n]):
            rep.violation('fd_weights-row', dict(x=rec['x'], x0=rec['x0'], n=n), 'fd_weights is not row n of fd_weights_all')
            return


def lagrange_weights_exact(x, x0):
    """spec/Fornberg.tla's DEFINITION (k-th derivative at x0 of the Lagrange basis polynomials) evaluated in exact rational
    arithmetic on the floating-point inputs - for node sets beyond what TLC's 32-bit rationals reach (sizes 6..14)"""
    from fractions import Fraction as Fr
    import math
    m = len(x)
    X, c0 = [Fr(float(v)) for v in x], Fr(float(x0))
    W = [[Fr(0)] * m for _ in range(m)]
    for j in range(m):
        poly, den = [Fr(1)], Fr(1)            # in powers of t = x - x0
        for i in range(m):
            if i == j:
                continue
            a = c0 - X[i]
            new = [Fr(0)] * (len(poly) + 1)
            for k, ck in enumerate(poly):
                new[k] += ck * a
                new[k + 1] += ck
            poly, den = new, den * (X[j] - X[i])
        for k in range(m):
            W[k][j] = poly[k] * math.factorial(k) / den
    return np.array([[float(v) for v in row] for row in W])


def large_sets(fb, tier, seed, rep, stats):
    rnd = random.Random(seed + 11)
    for trial in range(60 if tier == 'quick' else 600):
        m = rnd.randint(6, 14)
        kind = rnd.choice(['uniform', 'random', 'clustered', 'permuted', 'one-sided', 'tight-far'])
        if kind == 'tight-far':
            # a tight cluster of nodes seen from far away: the weights are huge but perfectly determined by the NODE DIFFERENCES
            m = rnd.randint(3, 8)
            x = rnd.choice([0.5, -0.3, 2.0]) + np.array([rnd.uniform(-1, 1) for _ in range(m)]) * 10.0 ** -rnd.choice([4, 5, 6])      # not dyadic: x - x0 rounds
        elif kind == 'uniform':
            x = np.arange(m) * 0.5 - 1.0
        elif kind == 'random':
            x = np.sort(np.array([rnd.uniform(-2, 2) for _ in range(m)]))
        elif kind == 'clustered':
            x = np.cos(np.pi * (np.arange(m) + 0.5) / m)
        elif kind == 'permuted':
            x = np.array(rnd.sample(list(np.arange(m) * 0.25), m))
        else:
            x = np.arange(m) * 0.125
        if np.min(np.abs(np.diff(np.sort(x)))) < (1e-3 if kind != 'tight-far' else 1e-9):
            continue
        x0 = rnd.choice([x[m // 2], x[0] - 0.3, 0.5 * (x[1] + x[2]), x[-1] + 1.0, 0.1]) if kind != 'tight-far' else rnd.choice([3.5, -40.0, 1000.0, 1.5])
        W = lagrange_weights_exact(x, x0)
        name = '%s nodes, size %d, x0=%r' % (kind, m, float(x0))
        for n in sorted({m - 1, rnd.randint(0, m - 1), rnd.randint(0, m - 1)}):
            try:
                got = np.asarray(fb.fd_weights_all(x, x0, n), dtype=float)
                row = np.asarray(fb.fd_weights(x, x0, n), dtype=float)
            except Exception as ex:
                rep.violation('raises:large', dict(case=name, n=n), '%s n=%d raised %r' % (name, n, ex))
                break
            stats['calls'] += 1
            stats['large_sets'] = stats.get('large_sets', 0) + 1
            if got.shape != (n + 1, m) or not np.array_equal(row, got[n]):
                rep.violation('shape:large', dict(case=name, n=n, got=list(got.shape)), '%s n=%d: shape %s / fd_weights is not row n' % (name, n, got.shape))
                break
            bad = [k for k in range(n + 1) if not np.abs(got[k] - W[k]).max() <= 1e4 * EPS * np.abs(W[k]).sum() + 1e-300]
            if bad:
                k = bad[0]
                rep.violation('weights:large:row%d' % k, dict(case=name, n=n, row=k, nodes=x.tolist(), got=got[k].tolist(), want=W[k].tolist()),
                              '%s: fd_weights_all(n=%d)[%d] = %s, exact Lagrange-derivative weights %s' % (name, n, k, got[k].tolist(), W[k].tolist()))
                break


def run(tier, rep):
    seed = vlib.seed_from_env()
    from numdifftools import fornberg as fb
    results = tlc_cases(tier)
    recs = [r for res in results for r in res.records if r['usable']]
    skipped = sum(len(res.records) for res in results) - len(recs)
    stats = dict(calls=0, max_ratio=0.0)
    scales = [1.0, 2.0 ** -17, 2.0 ** 13, 2.0 ** -34]
    held = []
    for rec in recs:
        for c in scales:
            check_case(fb, rec, c, rep, stats, held)
    # results are values: a table the caller keeps is not changed by later calls (same or other node sets)
    for rec, n, c, got, snap, row, rsnap in held:
        if not (np.array_equal(np.asarray(got, dtype=float), snap) and np.array_equal(np.asarray(row, dtype=float), rsnap)):
            rep.violation('result-overwritten', dict(x=rec['x'], x0=rec['x0'], n=n, scale=c, returned=snap.tolist(), now=np.asarray(got, dtype=float).tolist()),
                          'fd_weights_all(x=%s, n=%d): the returned table %s was changed by later calls, it now reads %s' % (rec['x'], n, snap.tolist(), np.asarray(got, dtype=float).tolist()))
            break
    rnd = random.Random(seed)
    again = list(recs)
    rnd.shuffle(again)
    for rec in again[:len(again) // (4 if tier == 'quick' else 1)]:
        check_case(fb, rec, 1.0, rep, stats)
        check_case(fb, rec, 2.0 ** -10, rep, stats)
    large_sets(fb, tier, seed, rep, stats)
    states, trans, per = vlib.merge_tlc(results)
    cov = dict(states=states, transitions=trans, traces_validated_against_impl=len(recs), exhaustive=True,
               samples=[recs[7], recs[-1]], evaluations=stats['calls'], skipped_overflow=skipped,
               distinct_nontrivial=len({(repr(r['x']), repr(r['x0'])) for r in recs if len(r['x']) > 2}),
               rule='every ordered tuple of distinct nodes from a 9-value rational set (sizes 2..4, thorough: 5) x expansion points inside/outside/on a node; all n < len(x); non-trivial = more than two nodes',
               max_error_over_tolerance=stats['max_ratio'], scales=scales + [2.0 ** -10], held_results=len(held), large_node_sets=stats.get('large_sets', 0), tlc=per)
    assum = ['tolerance 64*eps*m*sum|w| per row', 'node sets of size 6..14 (uniform, random, clustered, permuted, one-sided): the specification\'s Lagrange definition evaluated in Fractions on the float inputs, tolerance 1e4*eps*sum|w| (worst observed 45)',
             'expansion points from a 7-value (3-value for the larger sizes) grid']
    return cov, assum
