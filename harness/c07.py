"""C07 - Richardson extrapolation removes exactly the modelled error terms.

spec/RichardsonX.tla defines the weights by their defining equations over Q(w) (real, imaginary
and spiral ratios), MC_Richardson proves SumToOne / Annihilates / ModelledRemoved / Count on a grid
of (ratio, spacing, order, num_terms, length) and emits exact weights, sequences and outputs.
Replay: the real Richardson.rule and __call__ on every case (one object per configuration reused
across lengths in shuffled order, several columns at once), plus seeded real and complex ratios for
which the specification's defining equations are evaluated on the floating-point weights."""
import cmath, math, random, collections
import numpy as np
import vlib

EPS = np.finfo(float).eps
SQ = (1 + 1j) / math.sqrt(2.0)
RATIOS = {'2': 2.0, '3/2': 1.5, '4': 4.0, '3': 3.0, '2i': 2j, '2w': 2 * SQ}


def oc(v):
    """element of Q(w) emitted by the spec -> complex"""
    a = [q[0] / q[1] for q in v]
    return a[0] + a[1] * SQ + a[2] * 1j + a[3] * SQ ** 3


def check_group(ex, key, recs, rnd, rep, stats):
    rk, step, order, numterms = key
    ratio = RATIOS[rk]
    obj = ex.Richardson(step_ratio=ratio, step=step, order=order, num_terms=numterms)
    recs = list(recs)
    rnd.shuffle(recs)
    for rec in recs:
        S = rec['S']
        name = 'ratio=%s/step=%d/order=%d/num_terms=%d/len=%d/b=%s' % (rk, step, order, numterms, S, rec['b'][0])
        w = np.array([oc(v) for v in rec['w']])
        seq = np.array([oc(v) for v in rec['seq']])
        out = np.array([oc(v) for v in rec['out']])
        if not np.iscomplexobj(ratio):
            w, seq, out = w.real, seq.real, out.real
        if rk in ('2', '3', '4'):
            # the same ratio given as a Python / numpy integer must give the same rule
            for ir in (int(ratio), np.int64(int(ratio))):
                try:
                    ri = ex.Richardson(step_ratio=ir, step=step, order=order, num_terms=numterms).rule(S)
                    ok_int = np.shape(ri) == np.shape(w) and np.allclose(ri, w, rtol=1e-9, atol=1e-12)
                except Exception as ex_:
                    ok_int, ri = False, repr(ex_)
                if not ok_int:
                    rep.violation('int-ratio:' + name, dict(case=name, ratio_type=type(ir).__name__, got=repr(ri)[:200], want=w.tolist()),
                                  '%s: step_ratio given as %s %r gives %s, exact weights %s' % (name, type(ir).__name__, ir, repr(ri)[:120], w.tolist()))
                    break
        try:
            rule = obj.rule(S)
            # an object built for ANOTHER ratio (and order) whose public attributes are then set to this configuration is this configuration
            other = ex.Richardson(step_ratio=3.5 if ratio != 3.5 else 2.5, step=step, order=order + 1, num_terms=numterms)
            other.step_ratio, other.order = ratio, order
            rule_re = other.rule(S)
        except Exception as ex_:
            rep.violation('rule-raises:' + name, dict(case=name), 'rule(%d) raised %r' % (S, ex_))
            continue
        if np.shape(rule_re) != np.shape(rule) or not np.array_equal(np.asarray(rule_re), np.asarray(rule), equal_nan=True):
            rep.violation('reassigned:' + name, dict(case=name, got=np.asarray(rule_re).tolist(), want=np.asarray(rule).tolist()),
                          '%s: an object whose step_ratio / order attributes were re-assigned to this configuration has the rule %s, a new object %s' % (name, np.asarray(rule_re).tolist(), np.asarray(rule).tolist()))
            continue
        stats['rules'] += 1
        if np.shape(rule) != w.shape:
            rep.violation('rule-length:' + name, dict(case=name, got=len(rule), want=len(w)), '%s: rule has %d weights, specification %d (min(num_terms, len-1)+1)' % (name, len(rule), len(w)))
            continue
        tolw = 64 * EPS * np.abs(w).sum() * len(w) ** 2 * max(1.0, np.abs(w).max())
        if np.abs(rule - w).max() > tolw:
            rep.violation('rule-weights:' + name, dict(case=name, got=np.asarray(rule).tolist(), want=w.tolist()), '%s: rule %s differs from the exact weights %s' % (name, np.asarray(rule).tolist(), w.tolist()))
            continue
        steps = np.array([abs(ratio) ** (-i) for i in range(S)])
        # three columns: the TLC sequence, a shifted copy and a scaled copy (columns are independent)
        cols = np.stack([seq, seq * 0.5 + 1.0, -3.0 * seq], axis=1)
        hcol = np.stack([steps] * 3, axis=1)
        cols0, seq0 = cols.copy(), seq.copy()
        try:
            new, err, hh = obj(cols, hcol)
            single, err1, _ = obj(seq[:, None], steps[:, None])
            again, _, _ = obj(cols, hcol)                 # the same arrays a second time (and below: their columns, as views)
            negst, _, _ = obj(cols, -hcol)                # steps approaching from below (negative h): the extrapolated values are the same
            colv, _, _ = obj(cols[:, 1], hcol[:, 1])
        except Exception as ex_:
            rep.violation('call-raises:' + name, dict(case=name), '%s: __call__ raised %r' % (name, ex_))
            continue
        stats['calls'] += 1
        if not (np.array_equal(cols, cols0) and np.array_equal(seq, seq0)):
            rep.violation('inputs-modified:' + name, dict(case=name), '%s: __call__ changed the sequence array it was given' % name)
            continue
        if not np.array_equal(np.asarray(negst), np.asarray(new), equal_nan=True):
            rep.violation('negative-steps:' + name, dict(case=name, got=np.asarray(negst)[:, 0].tolist(), want=np.asarray(new)[:, 0].tolist()), '%s: with the steps given as negative numbers the extrapolated values are %s, with positive steps %s' % (name, np.asarray(negst)[:, 0].tolist(), np.asarray(new)[:, 0].tolist()))
            continue
        if not (np.array_equal(again, new, equal_nan=True) and np.shape(colv) == (np.shape(new)[0],) and np.array_equal(np.asarray(colv), new[:, 1], equal_nan=True)):
            rep.violation('repeatable:' + name, dict(case=name), '%s: extrapolating the same array again (or one of its columns as a view) gives different numbers' % name)
            continue
        if new.shape != (len(out), 3) or hh.shape != new.shape:
            rep.violation('count:' + name, dict(case=name, got=list(new.shape), want=[len(out), 3]), '%s: %d outputs per column, specification %d (= len - terms used)' % (name, new.shape[0], len(out)))
            continue
        cond = np.abs(w).sum() * np.abs(seq).max()
        tol = 64 * EPS * cond * len(w) + 1e-300
        if np.abs(new[:, 0] - out).max() > tol:
            rep.violation('value:' + name, dict(case=name, got=new[:, 0].tolist(), want=out.tolist()), '%s: extrapolated %s, exact %s' % (name, new[:, 0].tolist(), out.tolist()))
            continue
        if not (np.array_equal(new[:, 0], single[:, 0]) and np.allclose(new[:, 1], out * 0.5 + 1.0, rtol=0, atol=4 * tol) and np.allclose(new[:, 2], -3.0 * out, rtol=0, atol=12 * tol)):
            rep.violation('columns:' + name, dict(case=name), '%s: a column of a 2-d sequence is not treated independently of the others' % name)
            continue
        if not (np.isrealobj(err) and np.isrealobj(err1) and (np.asarray(err) >= 0).all() and (np.asarray(err1) >= 0).all()):
            rep.violation('abserr-negative:' + name, dict(case=name, err=[complex(t) for t in np.ravel(err)]), '%s: error estimate is not a non-negative real number: %s' % (name, np.ravel(err)[:3].tolist()))


def random_ratio_cases(ex, tier, seed, rep, stats):
    # machine type of the ratio: every integral ratio as int / numpy integer against the same ratio as float
    stats['typed_ratio_rules'] = 0
    for ratio in (2.0, 3.0, 4.0, 10.0, 16.0, 100.0):
        for step in (1, 2, 3, 4):
            for order in range(1, 9):
                for numterms in range(1, 6):
                    name = 'ratio=%r/step=%d/order=%d/num_terms=%d' % (ratio, step, order, numterms)
                    with np.errstate(all='ignore'):
                        ref = np.asarray(ex.Richardson(step_ratio=ratio, step=step, order=order, num_terms=numterms).rule())
                    for typ in (int, np.int64, np.int32):
                        try:
                            with np.errstate(all='ignore'):
                                ri = np.asarray(ex.Richardson(step_ratio=typ(ratio), step=step, order=order, num_terms=numterms).rule())
                            ok_int = ri.shape == ref.shape and np.allclose(ri, ref, rtol=1e-9, atol=1e-12)
                        except Exception as ex_:
                            ok_int, ri = False, repr(ex_)
                        stats['typed_ratio_rules'] += 1
                        if not ok_int:
                            rep.violation('int-ratio:sweep', dict(case=name, ratio_type=typ.__name__, got=repr(ri)[:200], want=ref.tolist()),
                                          '%s: step_ratio given as %s gives %s, as float %s' % (name, typ.__name__, repr(ri)[:120], ref.tolist()))
                            break
    rnd = random.Random(seed)
    n = 150 if tier == 'quick' else 1500
    for c in range(n):
        mod = rnd.choice([1.05, 1.3, 1.6, 2.0, 2.5, 7.0, 31.0, 100.0, rnd.uniform(1.05, 100)])
        if c % 3 == 0:
            ratio = mod * cmath.exp(1j * rnd.choice([math.pi / 8, math.pi / 2, math.pi / 4, rnd.uniform(0.05, 3.0)]))
        else:
            ratio = mod
        step, order, numterms = rnd.randint(1, 4), rnd.randint(1, 8), rnd.randint(0, 5)
        S = rnd.randint(1, 20)
        nt = min(numterms, S - 1)
        name = 'ratio=%r/step=%d/order=%d/num_terms=%d/len=%d' % (ratio, step, order, numterms, S)
        obj = ex.Richardson(step_ratio=ratio, step=step, order=order, num_terms=numterms)
        try:
            rule = np.asarray(obj.rule(S))
        except Exception as ex_:
            rep.violation('rule-raises:random', dict(case=name), '%s: rule raised %r' % (name, ex_))
            continue
        if len(rule) != nt + 1:
            rep.violation('rule-length:random', dict(case=name, got=len(rule)), '%s: %d weights, specification %d' % (name, len(rule), nt + 1))
            continue
        if not isinstance(ratio, complex) and ratio == int(ratio):
            # the ratio is a real number: its machine type (Python int, numpy integers) is not part of the configuration
            for typ in (int, np.int64, np.int32):
                try:
                    with np.errstate(all='ignore'):
                        ri = np.asarray(ex.Richardson(step_ratio=typ(ratio), step=step, order=order, num_terms=numterms).rule(S))
                    ok_int = ri.shape == rule.shape and np.allclose(ri, rule, rtol=1e-9, atol=1e-12)
                except Exception as ex_:
                    ok_int, ri = False, repr(ex_)
                if not ok_int:
                    rep.violation('int-ratio:random', dict(case=name, ratio_type=typ.__name__, got=repr(ri)[:200], want=rule.tolist()),
                                  '%s: step_ratio given as %s gives %s, as float %s' % (name, typ.__name__, repr(ri)[:120], rule.tolist()))
                    break
        # defining equations of RichardsonX on the floating-point weights
        tj = [ratio ** (-(order + step * j)) for j in range(nt)]
        V = np.array([[1.0] + [t ** i for t in tj] for i in range(nt + 1)], dtype=complex)
        kappa = np.linalg.cond(V)
        if kappa * EPS > 1e-6:
            stats['skipped_illconditioned'] += 1
            continue
        res = [abs(rule.sum() - 1)] + [abs(sum(rule[i] * t ** i for i in range(nt + 1))) for t in tj]
        tol = 16 * EPS * kappa * max(1.0, np.abs(rule).sum())
        stats['max_def_ratio'] = max(stats['max_def_ratio'], max(res) / tol)
        if max(res) > tol:
            rep.violation('defining:random', dict(case=name, residuals=res, tol=tol, rule=[complex(z) for z in rule]),
                          '%s: weights violate sum-to-one / annihilation by %.3g (tolerance %.3g)' % (name, max(res), tol))
            continue
        L = rnd.uniform(-3, 3)
        a = [rnd.uniform(-2, 2) for _ in range(nt)]
        if c % 4 == 1:          # complex limit and coefficients (also with a real ratio)
            L = L + 1j * rnd.uniform(-3, 3)
            a = [x + 1j * rnd.uniform(-2, 2) for x in a]
        h = np.array([ratio ** (-i) for i in range(S)])
        seq = L + sum(a[j] * h ** (order + step * j) for j in range(nt)) if nt else L + 0 * h
        if not np.iscomplexobj(ratio) and not isinstance(L, complex):
            seq = np.real(seq)
        try:
            new, err, _ = obj(np.asarray(seq)[:, None], np.abs(h)[:, None])
        except Exception as ex_:
            rep.violation('call-raises:random', dict(case=name), '%s: __call__ raised %r' % (name, ex_))
            continue
        stats['random_calls'] += 1
        if new.shape[0] != S - nt:
            rep.violation('count:random', dict(case=name, got=int(new.shape[0])), '%s: %d outputs, specification %d' % (name, new.shape[0], S - nt))
            continue
        tol2 = 64 * EPS * kappa * (abs(L) + sum(abs(x) for x in a) + 1)
        if np.abs(new[:, 0] - L).max() > tol2:
            rep.violation('value:random', dict(case=name, got=[complex(z) for z in new[:, 0]], L=L), '%s: sequence with only modelled terms is mapped to %s, not to L = %r' % (name, new[:, 0].tolist(), L))
        if not (np.isrealobj(err) and (np.asarray(err) >= 0).all()):
            rep.violation('abserr-negative:random', dict(case=name), '%s: error estimate is not a non-negative real number: %s' % (name, np.ravel(err)[:3].tolist()))
        # the same sequence as a plain 1-d array (one column alone) must give that column
        try:
            keep_new, keep_err = np.array(new, copy=True), np.array(err, copy=True)
            new1, err1, _ = obj(np.asarray(seq), np.abs(h))
            if not (np.array_equal(new, keep_new, equal_nan=True) and np.array_equal(err, keep_err, equal_nan=True)):
                rep.violation('result-overwritten:random', dict(case=name), '%s: the arrays returned by one call were changed by the next call of the same object' % name)
            if np.shape(new1) != (S - nt,) or np.abs(np.asarray(new1) - new[:, 0]).max() > tol2:
                rep.violation('one-dimensional:random', dict(case=name, got=[complex(z) for z in np.ravel(new1)], column=[complex(z) for z in new[:, 0]]),
                              '%s: the sequence given as a 1-d array is mapped to %s, as a column of a matrix to %s' % (name, np.ravel(new1).tolist(), new[:, 0].tolist()))
        except Exception as ex_:
            rep.violation('call-raises:random', dict(case=name), '%s: __call__ on a 1-d sequence raised %r' % (name, ex_))


def run(tier, rep):
    seed = vlib.seed_from_env()
    from numdifftools import extrapolation as ex
    cfg = open(vlib.SPEC + '/MC_Richardson.cfg').read()
    if tier != 'quick':
        cfg = cfg.replace('Ls <- LsOne', 'Ls <- LsStd')
    res = vlib.tlc('MC_Richardson', cfg_text=cfg, timeout=3000)
    if res.violated:
        raise vlib.MachineryError('MC_Richardson violates %s\n%s' % (res.violated, res.out[-1500:]))
    vlib.require_ok(res)
    usable = [r for r in res.records if r['usable']]
    groups = collections.OrderedDict()
    for r in usable:
        groups.setdefault((r['rk'], r['step'], r['order'], r['numterms']), []).append(r)
    stats = dict(rules=0, calls=0, random_calls=0, skipped_illconditioned=0, max_def_ratio=0.0)
    rnd = random.Random(seed)
    for key, recs in groups.items():
        check_group(ex, key, recs, rnd, rep, stats)
    random_ratio_cases(ex, tier, seed, rep, stats)
    states, trans, per = vlib.merge_tlc([res])
    cov = dict(states=states, transitions=trans, traces_validated_against_impl=stats['calls'] + stats['random_calls'], exhaustive=True,
               samples=[{k: v for k, v in usable[17].items() if k != 'seq'}], evaluations=stats['rules'] + stats['calls'] + stats['random_calls'],
               skipped_overflow=len(res.records) - len(usable), objects_reused=len(groups),
               distinct_nontrivial=len({(r['rk'], r['step'], r['order'], r['numterms'], r['S']) for r in usable if r['nt'] > 0}),
               rule='grid: 6 ratios (real, 2i, 2*exp(i pi/4)) x spacing 1..4 x order 1..4 x num_terms 0..3 x length 1..6 x unmodelled term on/off; plus seeded random real/complex ratios; non-trivial = at least one term removed',
               tlc=per, **stats)
    assum = ['exact weights only for the six grid ratios (32-bit rationals); other ratios: the specification\'s defining equations evaluated on the float weights, tolerance 16*eps*cond(V)',
             'value tolerance 64*eps*sum|w|*max|seq|']
    return cov, assum
