"""C03 - Jacobian, Gradient, directionaldiff: right entries and shapes for any R^n -> R^m.

MC_Multi (spec/MultiJets.tla) enumerates shapes n x m x k and function kinds (affine with distinct
entries, quadratic, smooth, products) and emits the component functions with their exact gradients
and the demanded result shape / index convention.  Each case is replayed into Jacobian for all
five methods and orders 2 and 4 at a base point with mixed magnitudes (so every coordinate has its
own step), Gradient (1-d and 2-d x) and directionaldiff; a nested case differentiates a function
that itself calls Gradient (exact answer: the Hessian from the 'hess' cases)."""
import json, os, math, random
import numpy as np
import vlib, multi

EPS = np.finfo(float).eps
ENV = json.load(open(os.path.join(vlib.VERIF, 'envelopes.json')))
METHODS = ['central', 'forward', 'backward', 'complex', 'multicomplex']
RECS = None


def env_first(method):
    return 10.0 * ENV['derivative'][method]['1']['default']


VIEWS = dict(id=lambda x: x, rev=lambda x: x[::-1], slice=lambda x: x[1:3], reshape=lambda x: x.reshape(2, -1))


def view_exact(kind, n):
    """Jacobian of the affine maps that return a VIEW of their argument (no new array is built)"""
    I = np.eye(n)
    if kind == 'id':
        return I
    if kind == 'rev':
        return I[::-1]
    if kind == 'slice':
        return I[1:3]
    out = np.zeros((2, n, n // 2))
    for i in range(2):
        for l in range(n // 2):
            out[i, i * (n // 2) + l, l] = 1.0
    return out


def run_view(case):
    vlib.use_repo()
    import numdifftools as nd
    kind, n, method, order = case
    x0 = np.array(multi.X0[:n])
    keep = x0.copy()
    try:
        val = nd.Jacobian(VIEWS[kind], method=method, order=order)(x0)
    except Exception as ex:
        return ('raise', '%s: %s' % (type(ex).__name__, str(ex)[:160]))
    return ('ok', np.asarray(val).tolist(), list(np.shape(val)), bool(np.array_equal(x0, keep)))


def run_case(case):
    vlib.use_repo()
    import numdifftools as nd
    ri, method, order, mode = case
    rec = RECS[ri]
    n = rec['n']
    x0 = multi.X0[:n]
    out = []
    try:
        if mode == 'jac':
            f = multi.vector_fun(rec, x0)
            xr = np.array(x0)
            xr.flags.writeable = False              # the caller's x is never written to
            gen = None
            if ri % 3 == 1:                         # a user generator with a ratio other than the default 2
                from numdifftools.step_generators import MaxStepGenerator
                gen = MaxStepGenerator(base_step=2.0 ** -5, step_ratio=[1.6, 3.0, 4.0][ri % 9 // 3], num_steps=10)      # steps 0.03 .. 1e-7: inside every test function's domain
            J = nd.Jacobian(f, method=method, order=order, step=gen)
            val = J(xr)
            if rec['kind'] == 'affine':
                # the same point given in single precision (an affine map has the same Jacobian everywhere): the evaluation points must
                # not be rounded to the dtype of x
                v32 = nd.Jacobian(f, method=method, order=order, step=gen)(np.array(x0, dtype=np.float32))
                if np.shape(v32) != np.shape(val) or not (np.abs(np.asarray(v32) - np.asarray(val)) <= 5e-6 * (1.0 + np.abs(np.asarray(val)))).all():          # single-precision steps are not an exact geometric sequence: 1e-7 is what the unchanged library delivers
                    return ('raise', 'Float32Point: with x given as float32 the Jacobian of an affine map is %s, with float64 x %s' % (np.asarray(v32).ravel()[:4].tolist(), np.asarray(val).ravel()[:4].tolist()))
            keep = np.array(val, copy=True)
            J(np.array(x0) * 1.5 + 0.25)            # a later call of the same object elsewhere
            if not np.array_equal(np.asarray(val), keep, equal_nan=True):
                return ('raise', 'ResultOverwritten: the array returned by the first call was changed by a later call of the same object')
            return ('ok', np.asarray(val).tolist(), list(np.shape(val)))
        if mode == 'jac-hist':
            # one object, three calls: at x0; at the SAME array after it was changed in place; at the same point with another
            # extra argument.  Each call has to return what a fresh object returns (bit for bit), and the third one the exact Jacobian
            f0 = multi.vector_fun(rec, x0)

            def f(x, t=0.0):
                return f0(x - t)
            d = 0.25 + 0.125 * (ri % 3)
            J = nd.Jacobian(f, method=method, order=order)
            xw = np.array(x0, dtype=float)
            r1 = np.array(J(xw, 0.0), copy=True)
            xw += d
            r2 = np.array(J(xw, 0.0), copy=True)
            r3 = np.array(J(xw, d), copy=True)
            g1 = np.array(J(np.array(x0, dtype=float), 0.0), copy=True)          # the object again at the first point
            fresh = [np.asarray(nd.Jacobian(f, method=method, order=order)(np.array(xx, dtype=float), t))
                     for xx, t in ((x0, 0.0), (np.array(x0) + d, 0.0), (np.array(x0) + d, d), (x0, 0.0))]
            # two overlapping calls of the SAME object from two threads with different extra arguments (a barrier in f's first evaluation
            # makes both calls start before either continues): each call differentiates ITS OWN f(., t)
            import threading
            bar, res_t = threading.Barrier(2, timeout=60), {}

            def ft(x, t=0.0, tag=None, _seen={}):
                if tag is not None and tag not in _seen:
                    _seen[tag] = True
                    try:
                        bar.wait()
                    except threading.BrokenBarrierError:
                        pass
                return f0(x - t)
            Jt = nd.Jacobian(ft, method=method, order=order)

            def work(tag, xx, t):
                try:
                    res_t[tag] = np.array(Jt(xx, t, tag), copy=True)
                except Exception as ex:          # noqa
                    res_t[tag] = ex
            ths = [threading.Thread(target=work, args=('a', np.array(x0, dtype=float), 0.0)), threading.Thread(target=work, args=('b', np.array(x0, dtype=float) + d, d))]
            for th in ths:
                th.start()
            for th in ths:
                th.join(120)
            seq_ = [np.asarray(nd.Jacobian(ft, method=method, order=order)(xx, t)) for xx, t in ((np.array(x0, dtype=float), 0.0), (np.array(x0, dtype=float) + d, d))]
            thr_ok = all(isinstance(res_t.get(k_), np.ndarray) and np.array_equal(res_t[k_], s_, equal_nan=True) for k_, s_ in zip(('a', 'b'), seq_))
            # the object's order re-assigned after it has been used (its generator must not remember anything about the old order)
            o2 = 4 if order == 2 else 2
            J.order = o2
            r5 = np.array(J(np.array(x0, dtype=float), 0.0), copy=True)
            f5 = np.asarray(nd.Jacobian(f, method=method, order=o2)(np.array(x0, dtype=float), 0.0))
            same = [bool(np.array_equal(a, b, equal_nan=True)) for a, b in zip((r1, r2, r3, g1), fresh)] + [bool(thr_ok), bool(np.array_equal(r5, f5, equal_nan=True))]
            return ('ok', r3.tolist(), list(r3.shape), same, r1.tolist())
        if mode == 'jac-list':      # x given as a python list; result must be the same
            f = multi.vector_fun(rec, x0)
            val = nd.Jacobian(f, method=method, order=order)(list(x0))
            return ('ok', np.asarray(val).tolist(), list(np.shape(val)))
        if mode in ('grad', 'grad2d', 'grad2dF', 'grad2dT'):
            F = multi.comp_fun(rec['comps'][0], x0)
            if mode != 'grad' and n % 2 == 0 and n > 1:
                xx = np.array(x0).reshape(2, n // 2)
                if mode == 'grad2dF':          # same logical array, Fortran memory order
                    xx = np.asfortranarray(xx)
                elif mode == 'grad2dT':        # same logical array, a transposed view
                    xx = np.ascontiguousarray(xx.T).T
                val, info = nd.Gradient(lambda z: F(np.ravel(z)) if not hasattr(z, 'z1') else F(z), method=method, order=order, full_output=True)(xx)
            else:
                val, info = nd.Gradient(F, method=method, order=order, full_output=True)(np.array(x0) if n > 1 else x0[0])
                plain = nd.Gradient(F, method=method, order=order)(np.array(x0) if n > 1 else x0[0])
                if np.shape(plain) != np.shape(val) or not np.array_equal(np.asarray(plain), np.asarray(val), equal_nan=True):
                    return ('raise', 'FullOutputMismatch: without full_output the gradient has shape %s, with it %s' % (np.shape(plain), np.shape(val)))
            return ('ok', np.asarray(val).tolist(), list(np.shape(val)), np.asarray(info.error_estimate).tolist())
        if mode == 'dirdiff':
            F = multi.comp_fun(rec['comps'][0], x0)
            v = np.array([((3 * j + 1) % 5) - 2.0 + (0.5 if j == 1 else 0.0) for j in range(n)])
            if not v.any():
                v[0] = 1.0
            if n % 2 == 0 and n >= 4 and order == 2:
                # documented usage: x0 an n1 x n2 array, vec of the same (matrix) shape
                X0m, Vm = np.array(x0).reshape(2, n // 2), v.reshape(2, n // 2)
                val, info = nd.directionaldiff(lambda z: F(np.ravel(z)), X0m, Vm, method=method, order=order, full_output=True)
            else:
                val, info = nd.directionaldiff(F, np.array(x0), v, method=method, order=order, full_output=True)
            # "any non-zero v of the same size as x": the same direction given in another shape (a column, a flat vector for a matrix x,
            # a python list) is the same direction
            alts = []
            if n >= 2:
                alts.append(('column v', nd.directionaldiff(F, np.array(x0), v.reshape(n, 1), method=method, order=order)))
                alts.append(('list v', nd.directionaldiff(F, list(x0), [float(t) for t in v], method=method, order=order)))
            if n % 2 == 0 and n >= 4:
                alts.append(('flat v, matrix x', nd.directionaldiff(lambda z: F(np.ravel(z)), np.array(x0).reshape(2, n // 2), v, method=method, order=order)))
            bad = [nm for nm, a_ in alts if np.shape(a_) != () or not abs(float(a_) - float(val)) <= 1e-9 * max(1.0, abs(float(val)))]
            if bad:
                return ('raise', 'DirectionShape: directionaldiff with %s gives %r, with v shaped like x %r' % (bad[0], [np.asarray(a_).tolist() for nm, a_ in alts if nm == bad[0]][0], float(val)))
            return ('ok', float(val), list(v), float(np.max(info.error_estimate)))
        if mode == 'nested':
            g = multi.comp_fun(rec['comps'][0], x0)
            inner = nd.Gradient(g, method='central')
            val = nd.Jacobian(lambda z: inner(z), method=method, order=order)(np.array(x0))
            return ('ok', np.asarray(val).tolist(), list(np.shape(val)))
    except Exception as ex:
        return ('raise', '%s: %s' % (type(ex).__name__, str(ex)[:160]))


def run(tier, rep):
    global RECS
    seed = vlib.seed_from_env()
    cfg = open(vlib.SPEC + '/MC_Multi.cfg').read()
    if tier != 'quick':
        cfg = cfg.replace('Ns = {1, 2, 3, 5, 8}', 'Ns = {1, 2, 3, 4, 5, 6, 7, 8}').replace('Ms = {1, 2, 3, 6}', 'Ms = {1, 2, 3, 4, 5, 6}').replace('Ks = {0, 1, 2, 4}', 'Ks = {0, 1, 2, 3, 4}')
    res = vlib.tlc('MC_Multi', cfg_text=cfg, timeout=3000)
    if res.violated:
        raise vlib.MachineryError('MC_Multi violates %s' % res.violated)
    vlib.require_ok(res)
    RECS = res.records
    rnd = random.Random(seed)
    cases = []
    for ri, rec in enumerate(RECS):
        if rec['what'] == 'jac':
            for method in METHODS:
                order = 2 if (ri + len(method)) % 2 else 4
                if tier != 'quick' or rnd.random() < 0.5:
                    cases.append((ri, method, order, 'jac'))
            if rec['k'] == 0 and rnd.random() < 0.2:
                cases.append((ri, rnd.choice(METHODS), 2, 'jac-list'))
            if rnd.random() < (0.35 if tier == 'quick' else 1.0):
                cases.append((ri, rnd.choice(METHODS + ['forward', 'backward']), rnd.choice([2, 4]), 'jac-hist'))
            if rec['m'] == 1 and rec['k'] == 0:
                for method in METHODS:
                    cases.append((ri, method, rnd.choice([2, 4]), 'grad'))
                    cases.append((ri, method, 2, 'dirdiff'))
                for md in ('grad2d', 'grad2dF', 'grad2dT'):
                    cases.append((ri, rnd.choice(METHODS), 2, md))
        else:
            if rec['n'] in (2, 3):
                for method in ('central', 'forward', 'backward'):
                    cases.append((ri, method, 2, 'nested'))
    outs = vlib.pool_map(run_case, cases, chunksize=8)
    nchk = 0
    worst = 0.0
    for (ri, method, order, mode), o in zip(cases, outs):
        rec = RECS[ri]
        n, m, k = rec['n'], rec['m'], rec['k']
        name = '%s n=%d m=%d k=%d kind=%s p=%d | %s order=%d' % (mode, n, m, k, rec['kind'], rec['p'], method, order)
        if o[0] == 'raise':
            key = 'raises:%s' % mode
            if mode == 'jac' and m == 1 and k == 0 and n >= 2:
                key = 'raises:jac-1xn'
            rep.violation(key + ':' + method, dict(case=name), '%s raised %s' % (name, o[1]))
            continue
        nchk += 1
        x0 = multi.X0[:n]
        sc = multi.scale_of(rec, x0)
        affine = rec['kind'] == 'affine'
        tol = (1e-9 if affine else env_first(method)) * sc
        if mode == 'jac-hist' and not all(o[3]):
            which = ['first call', 'call after x was changed in place', 'call with another extra argument', 'call at the first point again', 'pair of overlapping calls from two threads with different extra arguments', 'call after the order attribute was re-assigned'][o[3].index(False)]
            rep.violation('history:jac', dict(case=name, same_as_fresh=o[3]), '%s: the %s of one Jacobian object differs from what a fresh object returns for the same (f, x, args)' % (name, which))
            continue
        if mode in ('jac', 'jac-list', 'jac-hist'):
            want = multi.jac_exact(rec)
            if o[2] != list(want.shape):
                rep.violation('shape:jac', dict(case=name, got=o[2], want=list(want.shape)), '%s: result shape %s, the property demands %s' % (name, o[2], list(want.shape)))
                continue
            err = np.abs(np.array(o[1]) - want)
            worst = max(worst, float(err.max() / tol))
            if not (err <= tol).all():
                idx = np.unravel_index(int(np.argmax(err)), err.shape)
                rep.violation('entry:jac:%s' % ('affine' if affine else 'smooth'), dict(case=name, index=list(map(int, idx)), got=float(np.array(o[1])[idx]), want=float(want[idx])),
                              '%s: entry %s is %r, exact partial derivative %r (tolerance %.2g)' % (name, list(map(int, idx)), float(np.array(o[1])[idx]), float(want[idx]), tol))
        elif mode in ('grad', 'grad2d', 'grad2dF', 'grad2dT'):
            want = np.array(multi.vec(rec['grads'][0]))
            wshape = [] if n == 1 else [n]
            if o[2] != wshape:
                rep.violation('shape:grad', dict(case=name, got=o[2], want=wshape), '%s: Gradient shape %s, expected %s' % (name, o[2], wshape))
                continue
            err = np.abs(np.ravel(o[1]) - want)
            worst = max(worst, float(err.max() / tol))
            if not (err <= tol).all():
                rep.violation('entry:grad', dict(case=name, got=o[1], want=want.tolist()), '%s: gradient %s, exact %s' % (name, o[1], want.tolist()))
        elif mode == 'dirdiff':
            g = np.array(multi.vec(rec['grads'][0]))
            v = np.array(o[2])
            want = float(g.dot(v) / np.linalg.norm(v))
            tol2 = tol * math.sqrt(n) + 10 * o[3]
            if not abs(o[1] - want) <= tol2:
                rep.violation('dirdiff', dict(case=name, got=o[1], want=want, v=o[2]), '%s: directionaldiff %r, gradient.v/|v| = %r' % (name, o[1], want))
        elif mode == 'nested':
            want = np.array([multi.vec(r) for r in rec['hess']])
            if o[2] != list(want.shape):
                rep.violation('shape:nested', dict(case=name, got=o[2]), '%s: shape %s' % (name, o[2]))
                continue
            err = np.abs(np.array(o[1]) - want)
            if not (err <= 1e-4 * sc).all():
                rep.violation('entry:nested', dict(case=name, got=o[1], want=want.tolist()), '%s: Jacobian of a function that calls Gradient is %s, exact Hessian %s' % (name, o[1], want.tolist()))
    # affine maps that return a view of their argument (identity, reversal, slice, reshape to a matrix)
    vcases = [(kind, n, method, order) for kind in VIEWS for n in (1, 2, 3, 4, 5, 8) for method in METHODS for order in (2, 4)
              if not (kind == 'slice' and n < 3) and not (kind == 'reshape' and (n % 2 or method == 'multicomplex'))]
    for (kind, n, method, order), o in zip(vcases, vlib.pool_map(run_view, vcases, chunksize=8)):
        name = 'view:%s n=%d | %s order=%d' % (kind, n, method, order)
        if o[0] == 'raise':
            rep.violation('raises:view:' + method, dict(case=name), '%s raised %s' % (name, o[1]))
            continue
        nchk += 1
        want = view_exact(kind, n)
        if o[2] != list(want.shape):
            rep.violation('shape:view', dict(case=name, got=o[2], want=list(want.shape)), '%s: result shape %s, the property demands %s' % (name, o[2], list(want.shape)))
        elif not (np.abs(np.array(o[1]) - want) <= 1e-9 * 100.0).all():
            rep.violation('entry:view:' + kind, dict(case=name, got=o[1], want=want.tolist()), '%s: Jacobian of an affine map that returns a view of its argument is %s, exact %s' % (name, np.round(o[1], 6).tolist(), want.tolist()))
        elif not o[3]:
            rep.violation('x-modified:view', dict(case=name), '%s: the caller\'s x was modified' % name)
    states, trans, per = vlib.merge_tlc([res])
    cov = dict(view_cases=len(vcases), states=states, transitions=trans, traces_validated_against_impl=nchk, exhaustive=tier != 'quick',
               samples=[{k: v for k, v in RECS[5].items() if k != 'comps'}], evaluations=nchk,
               distinct_nontrivial=len({(c[0], c[1], c[3]) for c in cases if RECS[c[0]]['kind'] != 'affine'}),
               rule='TLC: n x m x k shapes (quick n in {1,2,3,5,8}, m in {1,2,3,6}, k in {0,1,2,4}) x 4 function kinds x 2 patterns; replay over methods/orders; non-trivial = non-affine',
               worst_error_over_tolerance=worst, tlc=per)
    assum = ['exact derivatives from spec/MultiJets.tla (chain rule / Leibniz over rationals) at u = x - x0 = 0',
             'affine maps: tolerance 1e-9 * scale; smooth maps: 100 x the first-derivative envelope of envelopes.json',
             'base point with mixed magnitudes (0.5, -3, 40, 0.001, 7, -0.25, 100, 2)']
    return cov, assum
