"""C01 - Derivative returns the true n-th derivative within the accuracy envelope.

TLC runs spec/ExprMachine.tla: every behaviour is an expression program over the elementary
functions, its state the exact rational jet (truncated Taylor-series arithmetic, spec/Jets.tla).
Every emitted program is replayed: the action sequence becomes a numpy closure, and
Derivative(f, n, method, order, step...)(x) is compared with n! * jet[n] under the committed
envelope table (envelopes.json).  The rule/stencil part of the property (right formula, sign and
parity class for every (method, n, order)) is the exhaustive MC_Rules check shared with C06."""
import json, math, os, random, collections
import numpy as np
import vlib
import exprs
import fjets

ENV = json.load(open(os.environ.get('VERIF_ENVELOPES') or os.path.join(vlib.VERIF, 'envelopes.json')))
METHODS = ['central', 'forward', 'backward', 'complex', 'multicomplex']
NMAX = dict(central=8, forward=8, backward=8, complex=8, multicomplex=2)
AS = [1e-3, -1e-3, 0.125, -0.125, 1.0, -1.0, 3.0, -3.0, 100.0, -100.0, 0.0]


def envelope(method, n, kind):
    return ENV['derivative'][method][str(n)].get(kind, 1.0)


def tlc_programs(tier):
    cfg = open(vlib.SPEC + '/MC_Expr.cfg').read()
    out = []
    if tier == 'quick':
        runs = [('expr2', cfg.replace('Cs <- CsOne', 'Cs <- CsStd'))]
    else:
        runs = [('expr2', cfg.replace('Cs <- CsOne', 'Cs <- CsStd')), ('expr3', cfg.replace('MaxOps = 2', 'MaxOps = 3'))]
    for tag, c in runs:
        r = vlib.tlc('ExprMachine', cfg_text=c, tag=tag, timeout=3000)
        if r.violated:
            raise vlib.MachineryError('ExprMachine violates %s\n%s' % (r.violated, r.out[-1500:]))
        vlib.require_ok(r)
        out.append(r)
    return out


def transcription_conforms(uniq):
    """harness/fjets.py is a floating-point transcription of spec/Jets.tla; on every program TLC emitted it has to
    reproduce the specification's rational jet (it is then used at inner points where the coefficients are irrational)"""
    worst = 0.0
    for r in uniq:
        try:
            j = fjets.run_program(r['prog'], r['c'][0] / r['c'][1], 0.0)
        except fjets.DomainError as ex:
            raise vlib.MachineryError('fjets rejects the specification program %s: %s' % ('.'.join(r['prog']), ex))
        jf = exprs.jet_floats(r['jet'])
        d = max(abs(x - y) for x, y in zip(j, jf)) / max(max(abs(v) for v in jf), 1.0)      # intermediates are O(1) even when the program cancels to 0 (arcsin(sin u) - u)
        worst = max(worst, d)
        if d > 1e-11:
            raise vlib.MachineryError('fjets disagrees with spec/Jets.tla on %s (c=%s): %.3g' % ('.'.join(r['prog']), r['c'], d))
    return worst


def generic_records(uniq, tier, seed):
    """the specification's programs at inner base values where the Taylor coefficients are irrational: u = (x - a) + p"""
    G = ENV.get('generic')
    if not G:
        return []
    seen, out = set(), []
    for r in uniq:
        k = tuple(r['prog'])
        if k in seen:
            continue
        seen.add(k)
        for p in G['points']:
            try:
                j, isc = fjets.run_program(r['prog'], 1.0, p, want_scale=True)
            except fjets.DomainError:
                continue
            out.append(dict(prog=r['prog'], c=[1, 1], p=p, jet=[list(float(v).as_integer_ratio()) for v in j], entire=r['entire'], iscale=isc))
    cap = G['max_records'][tier]
    if len(out) > cap:
        out = random.Random(seed + 11).sample(out, cap)
    return out


def generic_sigma(r, n, a):
    """local scale; at the generic inner points at least the size of the program's intermediate values (the float oracle and numpy's
    own evaluation of a cancelling program carry rounding noise of that size)"""
    sigma = exprs.local_scale(r['jet'], n, a)
    if 'iscale' in r:
        sigma = max(sigma, (1.0 + abs(a)) * math.factorial(n) * r['iscale'])
    return sigma


LOSSY = ('arcsin', 'arctan')


def cell_suffix(r, m, n):
    """(multicomplex, n = 2): programs through Bicomplex.arcsin / Bicomplex.arctan are a separate cell (known finding)"""
    ops = [o for o in LOSSY if o in r['prog']] if (m, n) == ('multicomplex', 2) else []
    return ':' + '+'.join(ops) if ops else ''


def step_options(rnd, rho, entire, method='central'):
    """(kind, constructor kwargs) ; generators are described, not instantiated (picklable)"""
    opts = []
    if entire or method in ('complex', 'multicomplex'):     # their default generator takes tiny steps
        opts.append(('default', None))
    top = 2.0 if rho == float('inf') else min(2.0, rho / 8.0)
    # a user Max generator of 8-12 steps below `top` (more steps would only add rounding-dominated rows)
    opts.append(('max', ('Max', dict(base_step=top, step_ratio=rnd.choice([None, 2.0]), num_steps=rnd.choice([8, 10, 12])))))
    opts.append(('min', ('Min', dict(num_extrap=rnd.choice([4, 9, 14]), step_ratio=rnd.choice([None, 2.0])))))
    return opts


def make_cases(recs, tier, seed):
    rnd = random.Random(seed)
    per0 = 3 if tier == 'quick' else 6
    cases = []
    for pi, r in enumerate(recs):
        rho = exprs.radius_estimate(r['jet'])
        per = per0 if 'p' not in r else 2
        for m in METHODS:
            for j in range(per):
                n = (pi + j) % NMAX[m] + 1 if j else rnd.randint(0, NMAX[m])
                if m == 'multicomplex' and n == 0 and j:
                    n = 1
                order = rnd.choice([1, 2, 3, 4, 5, 6, 7, 8]) if j else 2
                a = rnd.choice(AS)
                opts = step_options(rnd, rho, r['entire'], m)
                # claimed domain of the envelope (envelopes.json: claimed_kinds)
                opts = [o for o in opts if not (o[0] == 'max' and n > (1 if m == 'multicomplex' else 2)) and not (o[0] == 'min' and m == 'multicomplex')]
                kind, sk = rnd.choice(opts)
                arr = rnd.random() < 0.25
                cval = m in ('central', 'forward', 'backward') and rnd.random() < 0.2
                cases.append((pi, m, n, order, a, kind, sk, arr, cval))
    return cases


def build_step(sk):
    if sk is None:
        return None
    from numdifftools.step_generators import MinStepGenerator, MaxStepGenerator
    return dict(Min=MinStepGenerator, Max=MaxStepGenerator)[sk[0]](**sk[1])


RECS = None


def run_case(case):
    vlib.use_repo()
    import numdifftools as nd
    pi, m, n, order, a, kind, sk, arr, cval = case
    r = RECS[pi]
    c = r['c'][0] / r['c'][1]
    f00 = exprs.make_fun(r['prog'], c, a, powop=[False, 'int', False, 'float', False, 'npint'][(pi + n + order) % 6], p=r.get('p', 0.0))   # integer powers: operator or product
    CF = (0.6 + 0.8j) if cval else 1.0          # complex-valued f = (0.6+0.8i) * g, |factor| = 1
    f0 = (lambda z: f00(z) * CF) if cval else f00
    jf = np.array(exprs.jet_floats(r['jet']))
    s0 = float(np.max(np.abs(jf)))
    seen = [0.0, 0.0]

    def f(z):
        with np.errstate(all='ignore'):
            v = f0(z)
        # domain test: the specification's jet must represent f at every point the library looks at
        if hasattr(z, 'z1'):
            pts, vals = [z.z1 - 1j * z.z2, z.z1 + 1j * z.z2], [v.z1 - 1j * v.z2, v.z1 + 1j * v.z2]
        else:
            pts, vals = [z], [v]
        for p, w in zip(pts, vals):
            du = np.asarray(p, dtype=complex) - a
            t = np.zeros_like(du)
            for ck in jf[::-1]:
                t = t * du + ck
            t = t * CF
            with np.errstate(all='ignore'):
                dev = np.abs(t - w)
            dev = np.where(np.isfinite(dev), dev, np.inf)
            seen[0] = max(seen[0], float(np.max(dev)))
            seen[1] = max(seen[1], float(np.max(np.abs(t))))
        return v
    x = np.array([a, a]) if arr else a
    try:
        with np.errstate(all='ignore'):
            val, info = nd.Derivative(f, n=n, method=m, order=order, step=build_step(sk), full_output=True)(x)
    except Exception as ex:
        return ('raise', '%s: %s' % (type(ex).__name__, str(ex)[:160]))
    # ... and f must stay within two orders of magnitude of its local scale on the whole stencil
    tame = seen[0] <= 1e-3 * s0 and seen[1] <= 100.0 * s0
    v = np.asarray(val).ravel()
    e = np.asarray(info.error_estimate).ravel()
    return ('ok', [float(np.real(t)) for t in v], [float(np.imag(t)) for t in v] if np.iscomplexobj(v) else None, [float(t) for t in e], list(np.shape(val)), tame)


ANCHOR_PROGS = (['x', 'exp'], ['x', 'sin'], ['x', 'cosh'])


def run_anchor(case):
    vlib.use_repo()
    import numdifftools as nd
    pi, m, n, order, a = case
    r = RECS[pi]
    f = exprs.make_fun(r['prog'], r['c'][0] / r['c'][1], a)
    try:
        with np.errstate(all='ignore'):
            v = nd.Derivative(f, n=n, method=m, order=order)(a)
        return float(np.real(v))
    except Exception as ex:
        return '%s: %s' % (type(ex).__name__, str(ex)[:120])


def run(tier, rep):
    global RECS
    seed = vlib.seed_from_env()
    results = tlc_programs(tier)
    recs = [r for res in results for r in res.records if all(q[1] != 0 for q in r['jet'])]
    # distinct programs only
    seen, uniq = set(), []
    for r in recs:
        k = (tuple(r['prog']), tuple(r['c']))
        if k not in seen:
            seen.add(k)
            uniq.append(r)
    conf_worst = transcription_conforms(uniq)
    ngen0 = len(uniq)
    uniq = uniq + generic_records(uniq, tier, seed)
    RECS = uniq
    cases = make_cases(uniq, tier, seed)
    outs = vlib.pool_map(run_case, cases, chunksize=16)
    worst = collections.defaultdict(float)
    nchk = 0
    untamed = 0
    allr = collections.defaultdict(list)
    nontriv = set()
    for case, o in zip(cases, outs):
        pi, m, n, order, a, kind, sk, arr, cval = case
        r = uniq[pi]
        name = '%s @ c=%s a=%r%s | %s n=%d order=%d step=%s%s%s' % ('.'.join(r['prog']), '/'.join(map(str, r['c'])), a, ' inner point %r' % r['p'] if 'p' in r else '', m, n, order, kind, ' array' if arr else '', ' complex-valued' if cval else '')
        if o[0] == 'raise':
            if m == 'multicomplex' and n > 2:
                continue
            rep.violation('raises:%s:n=%d' % (m, n), dict(prog=r['prog'], c=r['c'], a=a, method=m, n=n, order=order, step=[kind, sk]), '%s raised %s' % (name, o[1]))
            continue
        _, vre, vim, est, shape, tame = o
        if not tame:
            untamed += 1
            continue
        if n > len(r['jet']) - 1:
            continue
        exact = exprs.exact_derivative(r['jet'], n)
        sigma = generic_sigma(r, n, a)
        if shape != ([2] if arr else []):
            rep.violation('shape:%s' % m, dict(prog=r['prog'], shape=shape), '%s: result shape %s' % (name, shape))
            continue
        if cval:
            if vim is None:
                vim = [0.0] * len(vre)
            err = max(abs(complex(a_, b_) - exact * (0.6 + 0.8j)) for a_, b_ in zip(vre, vim))
        else:
            err = max(abs(v - exact) for v in vre)
            if vim is not None:
                err = max([err] + [abs(v) for v in vim])
        nchk += 1
        ratio = err / sigma if np.isfinite(err) else float('inf')
        if not cell_suffix(r, m, n):
            worst[(m, n, kind)] = max(worst[(m, n, kind)], ratio)
        allr[(m, n, kind)].append((ratio, name))
        if len(r['prog']) > 2 and n >= 1:
            nontriv.add((tuple(r['prog']), tuple(r['c']), m, n, order, kind))
        if not ratio <= envelope(m, n, kind):
            rep.violation('envelope:%s:n=%d:%s%s' % (m, n, kind, cell_suffix(r, m, n)), dict(prog=r['prog'], c=r['c'], a=a, inner=r.get('p', 0.0), method=m, n=n, order=order, step=[kind, sk], got=vre, exact=exact, sigma=sigma, ratio=ratio, envelope=envelope(m, n, kind)),
                          '%s: got %r, exact (n! * jet[n]) %r, |error|/sigma = %.3g exceeds the envelope %.3g' % (name, vre, exact, ratio, envelope(m, n, kind)))
    # anchors: well-conditioned functions in every (method, n) cell, judged RELATIVE TO THE EXACT VALUE with a tight envelope
    AENV = ENV['anchor']
    acases = []
    for pi, r in enumerate(uniq[:ngen0]):
        if r['prog'] in [list(p) for p in ANCHOR_PROGS] and r['c'][0] / r['c'][1] in (1.0, 3.0):
            for m in METHODS:
                for n in range(1, NMAX[m] + 1):
                    if n <= len(r['jet']) - 1 and exprs.exact_derivative(r['jet'], n) != 0:
                        for order in ((1, 2, 4, 7) if tier == 'quick' else range(1, 9)):
                            for a in (0.5, -2.0, 30.0):
                                acases.append((pi, m, n, order, a))
    nanch, anchor_worst = 0, {}
    for (pi, m, n, order, a), v in zip(acases, vlib.pool_map(run_anchor, acases, chunksize=32)):
        r = uniq[pi]
        name = 'anchor %s @ c=%s a=%r | %s n=%d order=%d default generator' % ('.'.join(r['prog']), '/'.join(map(str, r['c'])), a, m, n, order)
        if isinstance(v, str):
            rep.violation('raises:anchor', dict(case=name), '%s raised %s' % (name, v))
            continue
        exact = exprs.exact_derivative(r['jet'], n)
        rel = abs(v - exact) / abs(exact) if np.isfinite(v) else float('inf')
        nanch += 1
        env_a = AENV[m][str(n)]
        anchor_worst[(m, n)] = max(anchor_worst.get((m, n), 0.0), rel / (env_a or 0.3))
        if not rel <= (env_a or 0.3):
            key = 'anchor:%s:n=%d' % (m, n) if env_a else 'anchor-inaccurate:%s:n=%d' % (m, n)
            rep.violation(key, dict(case=name, got=v, exact=exact, relative_error=rel, envelope=env_a or 0.3),
                          '%s: got %r, exact %r: relative error %.3g exceeds %.3g' % (name, v, exact, rel, env_a or 0.3))
    if os.environ.get('VERIF_SURVEY'):
        for k in sorted(allr):
            v = sorted(allr[k])
            print('SURVEY', k, len(v), 'median %.2g p90 %.2g max %.2g' % (v[len(v) // 2][0], v[int(len(v) * 0.9)][0], v[-1][0]), '|', v[-1][1][:90])
    states, trans, per = vlib.merge_tlc(results)
    cov = dict(states=states, transitions=trans, traces_validated_against_impl=nchk, programs=ngen0, generic_point_records=len(uniq) - ngen0, fjets_vs_spec_worst=conf_worst,
               samples=[dict(prog=uniq[40]['prog'], c=uniq[40]['c'], jet=uniq[40]['jet'][:6])], evaluations=nchk,
               distinct_nontrivial=len(nontriv), anchor_cases=nanch, anchor_worst_over_envelope=max([0.0] + [v_ for k_, v_ in anchor_worst.items() if AENV[k_[0]][str(k_[1])]]), outside_tame_domain=untamed, skipped_overflow=sum(len(res.records) for res in results) - len(recs),
               rule='TLC enumerates all ExprMachine programs up to the depth bound (quick 2 ops x 3 scalings, thorough 3 ops); per program a seeded sample of (method, n, order, step option, base point); non-trivial = non-polynomial program and n >= 1',
               worst_ratio_over_envelope=max([worst[k] / envelope(k[0], k[1], k[2]) for k in worst] + [0.0]), tlc=per)
    assum = ['exact value = n! * jet[n] from spec/Jets.tla (K = 12); accuracy is decided on g(c*(x - a)) at x = a',
             'envelope table /verif/envelopes.json, relative to sigma = (1+|x|) * max_{k<=n+4} n!|jet_k|',
             'inner points other than 0/1 (envelopes.json: generic.points): exact jets from harness/fjets.py, a floating-point transcription of spec/Jets.tla that is compared with the rational jets of every TLC program on each run; integer powers are written with the power operator in half of the cases',
             '(multicomplex, n=2) programs through Bicomplex.arcsin / arctan are their own cell (key suffix), see known_findings.json',
             'default generator only for entire programs; other programs use Max generators with top step <= radius/8 (root test on the jet) and Min generators',
             'the discrete part (formula/sign/parity for every (method, n, order)) is the exhaustive MC_Rules check (C06)']
    return cov, assum
