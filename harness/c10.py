"""C10 - step generators produce the documented geometric sequences, and enough steps.

spec/StepGen.tla is the closed-form model; MC_StepGen enumerates option combinations and emits,
per case, the count, the exponents and the symbolic base/nominal/ratio terms.  This driver builds
the real generator with exactly those options and compares `list(gen(x, method, n, order))`."""
import math, random, collections, itertools
import numpy as np
import vlib

EPS = np.finfo(float).eps
XS = [0.0, -37.5, np.array([1e-3, 1.0, 100.0]), np.array([[0.5, -2.0], [1e4, 3.0]]), 100.0, np.array([7.0, -0.25, 3e3]), 3, np.array([0, 4, -7])]     # the last two: integer-typed x


def q2f(q):
    return None if q[1] == 0 else q[0] / q[1]


def build(opts, spiral=False, theta=None):
    from numdifftools.step_generators import MinStepGenerator, MaxStepGenerator
    from numdifftools.limits import CStepGenerator
    kw = dict(base_step=q2f(opts['base']), step_ratio=q2f(opts['ratio']),
              num_steps=(None if opts['numsteps'] == 0 else opts['numsteps']), step_nom=q2f(opts['nom']),
              offset=q2f(opts['offset']), num_extrap=opts['extrap'], use_exact_steps=opts['exact'],
              check_num_steps=opts['check'], scale=q2f(opts['scale']))
    cls = dict(Min=MinStepGenerator, Max=MaxStepGenerator, C=CStepGenerator)[opts['cls']]
    if spiral:
        kw['path'] = 'spiral'          # dtheta left at its documented default pi/8 unless the case names another angle
        if theta and list(theta) != [1, 8]:
            kw['dtheta'] = np.pi * theta[0] / theta[1]
    return cls(**kw)


def build_deriv(rec):
    import numdifftools as nd
    step = q2f(rec['opts']['base']) if rec['opts']['cls'] == 'Min' else None
    d = nd.Derivative(np.exp, step=step, method=rec['m'], n=rec['n'], order=rec['o'])
    return d.step


def expected(rec, x):
    """interpret the specification's symbolic terms as floats (the model is the .tla file)"""
    kind, val = rec['base']
    base = (val[0] / val[1]) if kind == 'user' else EPS ** (1.0 / (val[0] / val[1]))
    nk, nv = rec['nom']
    xa = np.asarray(x)
    nom = np.full(xa.shape, nv[0] / nv[1]) if nk == 'user' else np.maximum(np.log(1.718281828459045 + np.abs(xa)), 1.0)
    ratio = rec['ratio'][0] / rec['ratio'][1]
    if rec['fam'] == 'spiral':
        ratio = np.exp(1j * np.pi * rec['theta'][0] / rec['theta'][1]) * ratio
    b = base * nom
    if rec['exact']:
        b = (b + 1.0) - 1.0
        ratio = (ratio + 1.0) - 1.0
    return [b * ratio ** (e[0] / e[1]) for e in rec['exps']], ratio


def compare(rec, gen, x, it=None):
    try:
        with vlib.time_limit(30):
            got = list(itertools.islice(it if it is not None else gen(x, rec['m'], rec['n'], rec['o']), 5001))      # never trust the sequence to end
    except Exception as ex:
        return 'generator raised %r' % (ex,)
    if len(got) > 5000:
        return 'more than 5000 steps generated, model says %d' % rec['count']
    want, ratio = expected(rec, x)
    if rec['count'] == 0 or (np.asarray(want[0]) == 0).any() if want else False:
        want = [w for w in want if (np.abs(w) > 0).all()]
    if len(got) != len(want):
        return 'generated %d steps, model says %d' % (len(got), len(want))
    for i, (g, w) in enumerate(zip(got, want)):
        g = np.asarray(g); w = np.asarray(w)
        if g.shape != w.shape:
            return 'step %d has shape %s, model %s' % (i, g.shape, w.shape)
        e = rec['exps'][i][0] / rec['exps'][i][1]
        # exact steps are multiples of 2^-52 scaled by ratio^e: the model's base may round to the neighbouring multiple (one unit)
        tol = 1e-12 * np.abs(w) + (2.3e-16 * abs(ratio) ** e if rec['exact'] else 0.0)
        if rec['fam'] == 'spiral' and rec['angles']:
            # the angle of step i is dtheta * exponent (units of pi), from the specification
            ang = np.pi * rec['angles'][i][0] / rec['angles'][i][1]
            if (np.abs(np.angle(g * np.exp(-1j * ang))) > 1e-9).any():
                return 'step %d has angle %r, model %r' % (i, np.angle(g).tolist(), ang)
        if (np.abs(g - w) > tol).any():
            return 'step %d is %r, model %r (base %s, nominal %s, ratio %s, exponent %s)' % (i, g.tolist(), w.tolist(), rec['base'], rec['nom'], rec['ratio'], rec['exps'][i])
    mags = [float(np.max(np.abs(g))) for g in got]
    if any(b >= a for a, b in zip(mags, mags[1:])):
        return 'magnitudes not strictly decreasing: %r' % (mags,)
    return None


def work(group):
    """one generator object per option set, reused over all its (method, n, order, x) calls in a
    shuffled order (generator state must not leak between calls)"""
    vlib.use_repo()
    key, recs, seed = group
    rnd = random.Random(seed)
    bad = []
    n = 0
    try:
        gen = build_deriv(recs[0]) if recs[0]['fam'] == 'deriv' else build(recs[0]['opts'], spiral=recs[0]['fam'] == 'spiral', theta=recs[0].get('theta'))
    except Exception as ex:
        return [(recs[0], 'constructor raised %r' % (ex,))], 0
    calls = [(r, xi) for r in recs for xi in range(len(XS))]
    rnd.shuffle(calls)
    if len(calls) > 400:
        calls = calls[:400]
    # the same call signature at consecutive DIFFERENT points of the same shape (nothing of an earlier x may survive)
    for r in recs[:6]:
        calls += [(r, 0), (r, 1), (r, 4), (r, 2), (r, 5), (r, 2)]
    for r, xi in calls:
        why = compare(r, gen, XS[xi])
        n += 1
        if why:
            bad.append((r, 'x=%r: %s' % (np.asarray(XS[xi]).tolist(), why)))
            if len(bad) > 3:
                break
    # two sequences requested from the same generator object BEFORE either is consumed (zip(gen(x1), gen(x2)), a list of
    # iterators consumed later): each is the documented sequence of ITS OWN call
    pairs = calls[:24]
    for (r1, x1), (r2, x2) in zip(pairs[0::2], pairs[1::2]):
        if bad:
            break
        try:
            it1 = gen(XS[x1], r1['m'], r1['n'], r1['o'])
            it2 = gen(XS[x2], r2['m'], r2['n'], r2['o'])
        except Exception as ex:
            bad.append((r1, 'generator raised %r' % (ex,)))
            break
        for r, xi, it in ((r2, x2, it2), (r1, x1, it1)):
            why = compare(r, gen, XS[xi], it=it)
            n += 1
            if why:
                bad.append((r, 'x=%r, iterator created before another call of the same generator object was consumed: %s' % (np.asarray(XS[xi]).tolist(), why)))
    return bad, n


def work_arraybase(item):
    """a user base step given PER ELEMENT (ndarray): every call yields the closed form elementwise, the generator and the
    caller's array are left as they were, and a step with a zero component is dropped"""
    vlib.use_repo()
    rec, seed = item
    rnd = random.Random(seed)
    o = dict(rec['opts'])
    base = q2f(o['base'])
    x = np.array([1e-3, -4.0, 100.0])
    bad, n = [], 0
    for mult in ([1.0, 2.0, 0.5], [1.0, 0.0, 3.0]):
        user = base * np.array(mult)
        keep = user.copy()
        o2 = dict(o)
        try:
            gen = build(o2, spiral=False)
            gen.base_step = user
        except Exception as ex:
            return [(rec, 'array base_step: constructor raised %r' % (ex,))], 0
        first = None
        for call in range(3):
            try:
                got = [np.array(g, copy=True) for g in itertools.islice(gen(x, rec['m'], rec['n'], rec['o']), 5001)]
            except Exception as ex:
                bad.append((rec, 'array base_step %s: call %d raised %r' % (mult, call + 1, ex)))
                break
            n += 1
            want, ratio = expected(rec, x)
            want = [w / base * user for w in want]
            want = [w for w in want if (np.abs(w) > 0).all()]
            if rec['exact']:
                break            # exact rounding of a scaled base is not the scaled exact rounding: closed form not comparable
            if len(got) != len(want):
                bad.append((rec, 'array base_step %s, call %d: %d steps generated, model says %d (steps with a zero component are dropped)' % (mult, call + 1, len(got), len(want))))
                break
            if any((np.abs(g - w) > 1e-12 * np.abs(w)).any() for g, w in zip(got, want)):
                j = [i for i, (g, w) in enumerate(zip(got, want)) if (np.abs(g - w) > 1e-12 * np.abs(w)).any()][0]
                bad.append((rec, 'array base_step %s, call %d: step %d is %r, model %r' % (mult, call + 1, j, got[j].tolist(), want[j].tolist())))
                break
            if not np.array_equal(user, keep):
                bad.append((rec, 'array base_step %s: the caller\'s base_step array was modified by call %d: %r -> %r' % (mult, call + 1, keep.tolist(), user.tolist())))
                break
    return bad, n


def literal_count(rec):
    """the literal reading of the property's last sentence: a bare default generator called with (method, n, order) against
    the rule LogRule builds for the SAME (method, n, order)"""
    vlib.use_repo()
    from numdifftools.finite_difference import LogRule
    gen = build(rec['opts'])
    with vlib.time_limit(30):
        k = len(list(itertools.islice(gen(0.5, rec['m'], rec['n'], rec['o']), 5001)))
    nr = len(LogRule(n=rec['n'], method=rec['m'], order=rec['o']).rule(gen.step_ratio))
    return k, nr


def check_tiny_bases(rep):
    """exact steps are rounded to the 2^-52 grid around 1 ((h + 1) - 1): a base step that rounds to zero yields NO steps (zero steps are dropped)"""
    vlib.use_repo()
    from numdifftools.step_generators import MinStepGenerator, MaxStepGenerator
    from numdifftools.limits import CStepGenerator
    n_ = 0
    for G in (MinStepGenerator, MaxStepGenerator, CStepGenerator):
        for b in (1e-17, 3e-17, 1e-16):
            for m, n, o in (('central', 1, 2), ('forward', 2, 2), ('complex', 1, 2)):
                try:
                    got = [np.asarray(s_).tolist() for s_ in itertools.islice(G(base_step=b, step_ratio=2.0, num_steps=3, use_exact_steps=True)(1.0, m, n, o), 50)]
                except Exception as ex:
                    rep.violation('tiny-base:raises', dict(gen=G.__name__, base=b), '%s(base_step=%g, use_exact_steps=True) raised %r' % (G.__name__, b, ex))
                    continue
                n_ += 1
                if got:
                    rep.violation('tiny-base', dict(gen=G.__name__, base=b, method=m, n=n, order=o, got=got[:4]),
                                  '%s(base_step=%g, step_ratio=2, num_steps=3, use_exact_steps=True)(1.0, %s, %d, %d) yields %s; the exact step (h + 1) - 1 is 0, and zero steps are dropped' % (G.__name__, b, m, n, o, got[:4]))
    return n_


def check_ln_table(rep):
    table = {2.0: 23, 3.0: 15, 4.0: 12, 8.0: 8, 16.0: 6, 1.5: 39, 10.0: 7}
    for r, v in table.items():
        if int(np.round(16.0 / np.log(r))) != v:
            raise vlib.MachineryError('Round16OverLn table entry %r wrong' % r)


def run(tier, rep):
    seed = vlib.seed_from_env()
    check_ln_table(rep)
    ntiny = check_tiny_bases(rep)
    cfg = open(vlib.SPEC + '/MC_StepGen.cfg').read()
    if tier == 'quick':
        cfg = cfg.replace('ValN = {1, 2, 5, 8}', 'ValN = {1, 5}').replace('ValO = {1, 2, 3, 4, 6}', 'ValO = {2, 3, 4, 6}')      # orders of 4 and more are where the order term of the default scale shows
    res = vlib.tlc('MC_StepGen', cfg_text=cfg, tag='MC_StepGen')
    if res.violated:
        raise vlib.MachineryError('model violates %s\n%s' % (res.violated, res.out[-1500:]))
    vlib.require_ok(res)
    groups = collections.OrderedDict()
    for r in res.records:
        k = (r['fam'], repr(sorted(r['opts'].items())), (r['m'] if r['fam'] == 'deriv' else ''), (r['n'], r['o']) if r['fam'] == 'deriv' else (), tuple(r['theta']))
        groups.setdefault(k, []).append(r)
    items = [(repr(k), v, seed + i) for i, (k, v) in enumerate(groups.items())]
    out = vlib.pool_map(work, items)
    # array-valued user base steps (value family, user base, not exact)
    arr = [r for r in res.records if r['fam'] == 'value' and r['base'][0] == 'user' and r['count'] > 0]
    rnd = random.Random(seed + 77)
    rnd.shuffle(arr)
    arr = arr[:(150 if tier == 'quick' else 1500)]
    out += vlib.pool_map(work_arraybase, [(r, seed + i) for i, r in enumerate(arr)])
    # default counts against the rule's length for the same raw (method, n, order)
    lit = [r for r in res.records if r['fam'] == 'count' and r['opts']['numsteps'] == 0 and r['opts']['extrap'] == 0 and r['opts']['cls'] in ('Min', 'Max')
           and r['m'] != 'multicomplex']
    nlit = 0
    for r, (k, nr) in zip(lit, vlib.pool_map(literal_count, lit, chunksize=16)):
        nlit += 1
        name = '%sStepGenerator() called with (%s, n=%d, order=%d)' % (r['opts']['cls'], r['m'], r['n'], r['o'])
        if (k, nr) != (r['count'], r['ruleterms']):
            rep.violation('literal-count:model', dict(case=name, code=[k, nr], spec=[r['count'], r['ruleterms']]), '%s: %d steps / %d rule weights, specification %d / %d' % (name, k, nr, r['count'], r['ruleterms']))
        elif k < nr:
            key = 'default-count-below-rule:order-below-minimal' if r['o'] < r['rstep'] else 'default-count-below-rule:%s:n=%d:o=%d' % (r['m'], r['n'], r['o'])
            rep.violation(key, dict(case=name, steps=k, rule_weights=nr), '%s yields %d steps, the rule for the same (method, n, order) has %d weights' % (name, k, nr))
    ncalls = 0
    for bad, n in out:
        ncalls += n
        for r, why in bad:
            o = r['opts']
            key = '%s:%s:%s/n=%d/o=%d' % (r['fam'], o['cls'], r['m'], r['n'], r['o'])
            rep.violation(key, r, '%s %s(%s) method=%s n=%d order=%d: %s' % (r['fam'], o['cls'], {k: v for k, v in o.items() if k != 'cls'}, r['m'], r['n'], r['o'], why))
    fams = collections.Counter(r['fam'] for r in res.records)
    states, trans, per = vlib.merge_tlc([res])
    nontriv = len({(r['fam'], repr(sorted(r['opts'].items())), r['m'], r['n'], r['o']) for r in res.records if r['count'] > 1})
    cov = dict(states=states, transitions=trans, traces_validated_against_impl=ncalls, exhaustive=True,
               samples=[res.records[0], [r for r in res.records if r['fam'] == 'value'][7]],
               evaluations=ncalls, distinct_nontrivial=nontriv, families=dict(fams), generator_objects=len(items), literal_count_cells=nlit,
               rule='TLC enumerates generator option combinations in four families (count / value / cdefault / deriv); each case is one generator call compared step by step; non-trivial = more than one step',
               tlc=per)
    assum = ['EPS**(1/scale), log and round(16/ln r) are interpreted by the harness from the specification\'s symbolic terms',
             'tolerance 1e-12 relative (+1 ulp of 1.0 scaled by ratio^e when use_exact_steps)',
             'x values: two scalars, a 1-d and a 2-d array (fixed)']
    return cov, assum
