"""C14 - streaming epsilon algorithms: EpsAlg matches the Shanks table; Dea is total.

 * spec/DeaIndex.tla (data-free index model, all branch outcomes) is model-checked for every table
   size 3..61; real Dea runs are recorded through hook H3 and validated against it (Trace_Dea).
 * spec/Wynn.tla + MC_Wynn: TLC feeds k-transient rational sequences term by term through the
   code-shaped EpsAlg update, checks it against the epsilon table by definition, and emits every
   prefix with the exact answer; the real EpsAlg / Dea / dea3 are replayed on them."""
import json, os, random, math, re, shutil
import numpy as np
import vlib

EPS = np.finfo(float).eps
LIMEXPS = list(range(3, 62, 2))


def dea_index_model(tier):
    out = []
    for cap in ('TRUE', 'FALSE'):
        cfg = """CONSTANTS
  LimExps = {%s}
  CapOnAllConverged = %s
SPECIFICATION Spec
CHECK_DEADLOCK FALSE
INVARIANT NoIndexError
INVARIANT TableIndexBounded
INVARIANT TypeOK
""" % (', '.join(map(str, LIMEXPS)), cap)
        out.append(vlib.tlc('DeaIndex', cfg_text=cfg, tag='DeaIndex_' + cap))
    fixed, unfixed = out
    if fixed.violated or not fixed.ok:
        raise vlib.MachineryError('DeaIndex (fixed design) is not index-safe: %s\n%s' % (fixed.violated, fixed.out[-1500:]))
    if not unfixed.violated:
        raise vlib.MachineryError('DeaIndex with CapOnAllConverged=FALSE should exhibit the upstream counterexample (vacuity guard)')
    return fixed, unfixed


def make_sequences(tier, seed):
    rnd = random.Random(seed)
    nseq = 300 if tier == 'quick' else 3000
    seqs = []
    for j in range(nseq):
        limexp = rnd.choice([3, 4, 5, 6, 7, 8, 10, 13, 20, 50, 60]) if j % 3 else rnd.randint(3, 60)
        length = rnd.choice([5, 12, 30, 80, 200]) if tier != 'quick' else rnd.choice([5, 12, 30, 80, 200][:4 + (j % 7 == 0)])
        kind = j % 8
        if kind == 0:      # random finite
            s = [rnd.gauss(0, 1) * 10 ** rnd.randint(-3, 3) for _ in range(length)]
        elif kind == 1:    # limit + geometric transients (converges, then stagnates at machine precision)
            L, a, q = rnd.uniform(-3, 3), rnd.uniform(-2, 2), rnd.choice([0.5, -0.5, 0.25, 0.9, -0.7, 1 / 3.0])
            s = [L + a * q ** i for i in range(length)]
        elif kind == 2:    # constant / eventually constant
            c = rnd.choice([0.0, 1.0, -2.5, 1e-20])
            s = [c + (rnd.random() if i < rnd.randint(0, 4) else 0.0) for i in range(length)]
        elif kind == 3:    # two transients
            L = rnd.uniform(-1, 1)
            s = [L + 2.0 * 0.5 ** i - 0.75 * (-0.6) ** i for i in range(length)]
        elif kind == 4:    # partial sums of an alternating series
            acc, s = 0.0, []
            for i in range(length):
                acc += (-1) ** i / (i + 1.0)
                s.append(acc)
        elif kind == 6:    # runs of EXACT zeros between non-zero terms (zero differences with zero tolerance)
            s = [0.0 if rnd.random() < 0.55 else float(rnd.randint(-3, 3)) * rnd.choice([1.0, 0.5, 1e-3]) for _ in range(length)]
            if j % 16 == 6:
                s[:3] = [0.0, 0.0, rnd.choice([1.0, -2.5, 1e-8])]
        elif kind == 7:    # stalled neighbours: agree to a few ulps (not to one), next to a term of another magnitude
            a = rnd.choice([1.0, -3.0, 1e-6, 7e5])
            k = rnd.choice([2, 3, 4, 6])
            first = [[a, a * (1 + k * EPS), 3.0 * a + 1.0], [3.0 * a + 1.0, a, a * (1 + k * EPS)], [a, 3.0 * a + 1.0, (3.0 * a + 1.0) * (1 - k * EPS)]][j % 3]
            s = first + [rnd.gauss(0, 1) for _ in range(length - 3)]
        else:              # dyadic: hits exact convergence quickly
            k = rnd.randint(1, 3)
            s = [1.0 + sum(0.5 ** ((t + 1) * i) for t in range(k)) for i in range(length)]
        if j % 5 == 3 and kind in (0, 1, 3, 4, 5):
            # the same sequence at a very large or very small scale (agreement with dea3 and finiteness do not depend on the scale)
            c = 10.0 ** rnd.choice([50, 55, -50, 40, -55])
            s = [c * t for t in s]
        if j % 11 == 5:
            # nearly arithmetic starts / equal early neighbours: the guards fire on the third to fifth term
            s = [[1.0, 2.0, 3.0, 4.0, 5.0], [2.0, 2.0, 3.0, 3.0, 5.0], [1.0, 1.5, 2.0, 2.5 + 1e-9, 3.0]][j % 3] + s[5:]
        seqs.append((limexp, s))
    return seqs


def run_dea(item):
    vlib.use_repo()
    from numdifftools import extrapolation as ex, _verif
    limexp, s = item
    evs, probs = [], []
    try:
        d = ex.Dea(limexp)
    except Exception as e:
        return dict(limexp=limexp, error='constructor: %r' % (e,), ev=[], probs=[])
    lim = int(d.limexp)
    for j, v in enumerate(s):
        n_in = int(d._n)
        del _verif.EVENTS[:]
        try:
            res, err = d(v)
        except Exception as e:
            return dict(limexp=lim, error='call %d raised %s: %s' % (j + 1, type(e).__name__, e), ev=evs, probs=probs, seq=s[:j + 1])
        hooks = [e for e in _verif.EVENTS if e.get('ev') == 'dea']
        if n_in >= 2:
            if len(hooks) != 1:
                return dict(limexp=lim, machinery='expected one dea hook event, got %d' % len(hooks), ev=evs, probs=probs)
            h = hooks[0]
            evs.append(dict(n_in=n_in, kind=h['kind'], i=h['i'], n_after=int(d._n)))
        else:
            evs.append(dict(n_in=n_in, kind='first', i=0, n_after=int(d._n)))
        if not (np.isfinite(res) and np.isfinite(err)):
            probs.append('call %d: non-finite result %r / error estimate %r for finite input' % (j + 1, res, err))
        if j >= 2 and not err >= 5 * EPS * abs(res) * (1 - 1e-12):
            probs.append('call %d: error estimate %r below 5 eps |result| = %r' % (j + 1, err, 5 * EPS * abs(res)))
        if j == 2:
            r3, e3 = ex.dea3(s[0], s[1], s[2])
            if not (abs(res - r3[0]) <= 1e-12 * max(abs(res), abs(r3[0]), 1e-300) or (np.isnan(res) and np.isnan(r3[0]))):
                probs.append('third term: Dea %r differs from dea3 %r' % (res, r3[0]))
    return dict(limexp=lim, req=int(limexp), ev=evs, probs=probs, seq=s[:8])


def run_dea_pair(pair):
    """two Dea objects fed alternately: each is its own DeaIndex machine (no state is shared between objects), so every
    output equals, bit for bit, what the same object produces when it runs alone"""
    vlib.use_repo()
    from numdifftools import extrapolation as ex
    (la, sa), (lb, sb) = pair

    def solo(l, s):
        d = ex.Dea(l)
        return [tuple(np.asarray(v, dtype=float).tobytes() for v in d(x)) for x in s]
    try:
        with np.errstate(all='ignore'):
            wa, wb = solo(la, sa), solo(lb, sb)
            da, db = ex.Dea(la), ex.Dea(lb)
            ga, gb = [], []
            for j in range(max(len(sa), len(sb))):
                if j < len(sa):
                    ga.append(tuple(np.asarray(v, dtype=float).tobytes() for v in da(sa[j])))
                if j < len(sb):
                    gb.append(tuple(np.asarray(v, dtype=float).tobytes() for v in db(sb[j])))
    except Exception as e:
        return 'raised %s: %s' % (type(e).__name__, e)
    for name, g, w in (('first', ga, wa), ('second', gb, wb)):
        for j, (x, y) in enumerate(zip(g, w)):
            if x != y:
                return 'the %s object (limexp %d and %d interleaved) returns %r at term %d, alone it returns %r' % (
                    name, la, lb, [float(np.frombuffer(b)[0]) for b in x], j + 1, [float(np.frombuffer(b)[0]) for b in y])
    return None


def wynn_reference(seq):
    """spec/Wynn.tla's recurrence  e[k+1](n) = e[k-1](n+1) + 1/(e[k](n+1) - e[k](n))  in floating point over the WHOLE table
    (anti-diagonal by anti-diagonal, with the code's 1e-60 guard): after each term the entry of highest even order"""
    out, prev = [], []
    for n, s_n in enumerate(seq):
        new = [s_n]
        for j in range(1, n + 1):
            delta = new[j - 1] - prev[j - 1]
            new.append(1.0e+60 if abs(delta) <= 1.0e-60 else (prev[j - 2] if j >= 2 else 0.0) + 1.0 / delta)
        out.append(new[n - n % 2])
        prev = new
    return out


def run_eps_long(item):
    """EpsAlg on long sequences (beyond any fixed window): every returned value equals, bit for bit, the entry of the
    full table (same arithmetic, so no tolerance is involved)"""
    vlib.use_repo()
    from numdifftools import extrapolation as ex
    kind, seed, length = item
    rnd = random.Random(seed)
    if kind == 0:
        seq = [rnd.gauss(0, 1) for _ in range(length)]
    elif kind == 1:
        seq = [float(rnd.randint(-64, 64)) / 8.0 for _ in range(length)]
    else:
        L, a, q, b, p = rnd.uniform(-2, 2), rnd.uniform(-2, 2), rnd.choice([0.5, -0.7, 0.9]), rnd.uniform(-1, 1), rnd.choice([0.25, -0.3])
        seq = [L + a * q ** i + b * p ** i + 1e-3 * rnd.random() for i in range(length)]
    with np.errstate(all='ignore'):
        want = wynn_reference(seq)
        ea = ex.EpsAlg()
        for j, v in enumerate(seq):
            try:
                got = ea(v)
            except Exception as e:
                return 'EpsAlg raised %r at term %d of a %d-term sequence' % (e, j + 1, length)
            if not (got == want[j] or (np.isnan(got) and np.isnan(want[j]))):
                return 'EpsAlg after %d terms returns %r, the entry of highest even order of the table built from all %d terms is %r' % (j + 1, got, j + 1, want[j])
    return None


def validate_dea(traces):
    d = vlib.run_dir('Trace_Dea-data')
    path = os.path.join(d, 'traces.json')
    json.dump(dict(traces=[dict(limexp=t['limexp'], ev=t['ev'], **({'req': t['req']} if 'req' in t else {})) for t in traces]), open(path, 'w'))
    cfg = """CONSTANTS
  LimExps = {3}
  CapOnAllConverged = TRUE
SPECIFICATION TraceSpec
CHECK_DEADLOCK FALSE
INVARIANT NoIndexError
CONSTRAINT Emit
"""
    res = vlib.tlc('Trace_Dea', cfg_text=cfg, env=dict(TRACE_FILE=path), tag='Trace_Dea', timeout=1800)
    shutil.rmtree(d, ignore_errors=True)
    vlib.require_ok(res)
    return res, {r['tid'] for r in res.records}


def epsalg_cases(tier):
    cfg = open(vlib.SPEC + '/MC_Wynn.cfg').read()
    r = vlib.tlc('MC_Wynn', cfg_text=cfg, tag='MC_Wynn', timeout=3000)
    if r.violated:
        raise vlib.MachineryError('MC_Wynn violates %s\n%s' % (r.violated, r.out[-1500:]))
    vlib.require_ok(r)
    return r


def replay_eps(rec):
    """feed the TLC-emitted prefix to the real EpsAlg (and Dea / dea3 on three terms); also a
    2^+-70 scaled copy (homogeneity lemma InvScaleCovariant)"""
    vlib.use_repo()
    from numdifftools import extrapolation as ex
    s = [vlib.fl(q) for q in rec['s']]
    probs = []
    scale_ref = max([abs(v) for v in s] + [1e-300])
    for c in (1.0, 2.0 ** 70, 2.0 ** -70):
        ea = ex.EpsAlg()
        try:
            for v in s:
                est = ea(v * c)
        except Exception as e:
            probs.append('EpsAlg raised %r (scale %g)' % (e, c))
            continue
        if rec['ok'] and rec['est'][1] != 0:
            want = vlib.fl(rec['est']) * c
            tol = 1e-9 * max(abs(want), scale_ref * c)
            if not abs(est - want) <= tol:
                probs.append('EpsAlg after %d terms (scale %g) returns %r, epsilon table says %r' % (len(s), c, est, want))
    d3 = rec['d3']
    nar = lambda q: q[1] == 0
    if len(s) >= 3 and d3['valid'] and rec['dom'] and not (nar(d3['result']) or nar(d3['err']) or nar(d3['epsc'])):
        want = vlib.fl(rec['d3']['result'])
        e0, e1, e2 = s[-3:]
        r3, a3 = ex.dea3(e0, e1, e2)
        tol = 1e-9 * max(abs(want), scale_ref)
        if not abs(r3[0] - want) <= tol:
            probs.append('dea3%r = %r, exact three-term step gives %r (converged=%s)' % ((e0, e1, e2), r3[0], want, rec['d3']['conv']))
        werr = vlib.fl(rec['d3']['err']) + vlib.fl(rec['d3']['epsc']) * EPS
        if not (a3[0] >= 0 and abs(a3[0] - werr) <= 1e-6 * max(werr, 1e-300) + 1e-9 * scale_ref):
            probs.append('dea3 abserr %r, exact %r' % (a3[0], werr))
        if len(s) == 3:
            d = ex.Dea(5)
            for v in s:
                res, err = d(v)
            if not abs(res - want) <= tol:
                probs.append('Dea on three terms %r returns %r, exact %r' % (s, res, want))
    return probs


def run(tier, rep):
    seed = vlib.seed_from_env()
    fixed, unfixed = dea_index_model(tier)
    # --- Dea: real runs -> traces
    seqs = make_sequences(tier, seed)
    outs = vlib.pool_map(run_dea, seqs)
    traces = []
    for (limexp, s), o in zip(seqs, outs):
        if o.get('machinery'):
            raise vlib.MachineryError(o['machinery'])
        if o.get('error'):
            rep.violation('dea-raises', dict(limexp=o['limexp'], seq=o.get('seq', [])[:12], n_terms=len(o.get('seq', []))),
                          'Dea(limexp=%d) %s' % (o['limexp'], o['error']))
        for p in o['probs'][:2]:
            rep.violation('dea-value:' + p.split(':')[0], dict(limexp=o['limexp'], seq=s[:12]), 'Dea(limexp=%d): %s' % (o['limexp'], p))
        if o['ev']:
            traces.append(o)
    # two objects interleaved (same and different table sizes)
    rndp = random.Random(seed + 9)
    pairs = []
    for _ in range(60 if tier == 'quick' else 600):
        a = rndp.choice(seqs)
        b = rndp.choice([x for x in seqs if x[0] == a[0]] if rndp.random() < 0.7 else seqs)
        pairs.append(((a[0], a[1][:40]), (b[0], b[1][:40])))
    for pr, why in zip(pairs, vlib.pool_map(run_dea_pair, pairs)):
        if why:
            rep.violation('dea-interleaved', dict(limexp=[pr[0][0], pr[1][0]], first=pr[0][1][:10], second=pr[1][1][:10]), 'Dea: ' + why)
    long_items = [(k % 3, seed + 31 * k, rndp.choice([40, 105, 130, 160, 200])) for k in range(30 if tier == 'quick' else 300)]
    for it, why in zip(long_items, vlib.pool_map(run_eps_long, long_items)):
        if why:
            rep.violation('epsalg-long', dict(kind=it[0], seed=it[1], length=it[2]), 'EpsAlg: ' + why)
    tres, accepted = validate_dea(traces)
    for i, t in enumerate(traces, 1):
        if i not in accepted:
            # first event that is not a step of the model
            rep.violation('dea-trace', dict(limexp=t['limexp'], events=t['ev'][:60]),
                          'Dea(limexp=%d): recorded calls are not a behaviour of DeaIndex (table index / branch bookkeeping differs from the design)' % t['limexp'])
    # negative control for the trace spec
    ctrl = dict(limexp=5, ev=[dict(n_in=0, kind='first', i=0, n_after=1), dict(n_in=1, kind='first', i=0, n_after=2),
                               dict(n_in=2, kind='none', i=1, n_after=3), dict(n_in=3, kind='none', i=1, n_after=5)])
    _, acc = validate_dea([ctrl])
    if acc:
        raise vlib.MachineryError('Trace_Dea accepted a corrupted trace')
    # --- EpsAlg / dea3 / Dea(3 terms): TLC cases
    wres = epsalg_cases(tier)
    probs = vlib.pool_map(replay_eps, wres.records)
    nrep = 0
    for rec, pl in zip(wres.records, probs):
        nrep += 1
        for p in pl[:1]:
            rep.violation('eps:' + p.split(' ')[0], dict(case={k: rec[k] for k in ('k', 'L', 'a', 'q', 's')}), p)
    states, trans, per = vlib.merge_tlc([fixed, unfixed, tres, wres])
    cov = dict(interleaved_pairs=len(pairs), epsalg_long_sequences=len(long_items), states=states, transitions=trans, traces_validated_against_impl=len(traces) + nrep,
               dea_runs=len(traces), dea_calls=sum(len(t['ev']) for t in traces), eps_prefixes=nrep,
               samples=[dict(limexp=traces[0]['limexp'], ev=traces[0]['ev'][:8]), wres.records[len(wres.records) // 2]],
               evaluations=len(traces) + nrep,
               distinct_nontrivial=len({(t['limexp'], tuple((e['kind'], e['n_in']) for e in t['ev'])) for t in traces if len(t['ev']) > t['limexp']}),
               rule='Dea: one trace per (limexp, sequence); non-trivial = more terms than the table holds. EpsAlg: one case per prefix of a TLC-generated k-transient sequence',
               unfixed_design_counterexample=unfixed.violated, tlc=per,
               branch_kinds={k: sum(1 for t in traces for e in t['ev'] if e['kind'] == k) for k in ('first', 'all', 'any', 'none')})
    assum = ['DeaIndex over-approximates Dea: branch outcomes are arbitrary, indices exact; limexp 3..61',
             'exact epsilon table only for k <= %d transients with small rational parameters (32-bit TLC integers); larger magnitudes through the homogeneity lemma' % 3,
             'float comparison tolerance 1e-9 relative to the largest term']
    return cov, assum
