#!/venv/bin/python
"""tools/gen_known_c17.py : (re)generate the per-input C17 entries of known_findings.json from the unchanged tree.
Run ONLY on a tree where the three C17 defect classes are the sole C17 violations (it lists whatever the quick and
thorough case sets of the default seed report under the class keys; anything else is printed and not listed)."""
import sys, os, json
sys.path.insert(0, '/verif/harness')
import vlib, c17
vlib.use_repo()
os.environ.pop('VERIF_SEED', None)

CLASSES = {
 'coefficient-high-n': ('taylor with n > 25 (m >= 64): upper coefficients are off by far more than 100*error_estimate + 1e3*eps*max|f|/R^k although the status is neither degenerate nor failed',
                        'needs a redesign of the radius targeting / selection for large m'),
 'coefficient-radius-exceeded': ('the radius search settles on a circle OUTSIDE the disc of analyticity (weak branch point) and the error estimate does not notice',
                                 'the controller has no information about the singularity; a repair changes the search strategy'),
 'coefficient-nyquist': ('the coefficient of order m/2 (the Nyquist bin of the m-point FFT) is far outside its error estimate',
                         'aliasing inherent to the size table; a repair means changing _num_taylor_coefficients'),
}


class Cap(object):
    def __init__(self):
        self.v = []

    def violation(self, key, case, why):
        self.v.append((key, case, why))
        return True


entries, other = {}, []
for tier in ('quick', 'thorough'):
    r = Cap()
    c17.run(tier, r)
    for key, case, why in r.v:
        cls = key.split(':')[0]
        if cls in CLASSES:
            entries.setdefault(key, dict(property='C17', key=key, status='known', recorded_relative_error=float(case['error'] / max(case['exact_abs'], case['floor'])), **{'class': cls},
                                         what='%s -- %s' % (why, CLASSES[cls][0]), tiers=[], why_not_fixed=CLASSES[cls][1]))
            if tier not in entries[key]['tiers']:
                entries[key]['tiers'].append(tier)
        else:
            other.append((tier, key, why))
p = '/verif/known_findings.json'
k = json.load(open(p))
k['findings'] = [f for f in k['findings'] if not (f.get('property') == 'C17' and f.get('status') == 'known')] + [entries[x] for x in sorted(entries)]
json.dump(k, open(p, 'w'), indent=1)
print(len(entries), 'C17 inputs listed')
for o in other:
    print('NOT LISTED:', o)
