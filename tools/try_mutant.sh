#!/bin/sh
# tools/try_mutant.sh <patch.diff> <property-id>...   : apply a seeded change to /repo, run the quick
# checks, ALWAYS restore /repo afterwards.  Prints the exit status per check.
P=$1; shift
cd /verif
if ! git -C /repo diff --quiet; then echo "/repo has local changes; refusing"; exit 2; fi
if ! git -C /repo apply --whitespace=nowarn "$P" 2>/dev/null; then
  if ! git -C /repo apply --whitespace=nowarn -3 "$P"; then echo "patch does not apply: $P"; git -C /repo reset -q; git -C /repo checkout -f HEAD -- . ; exit 2; fi
fi
for id in "$@"; do
  ./check $id --tier ${TIER:-quick} > /verif/build/mut-$id.log 2>&1; rc=$?
  echo "== $id rc=$rc  $(grep -c '^VIOLATION' /verif/build/mut-$id.log) violation line(s)"
  grep -m3 -A1 '^VIOLATION' /verif/build/mut-$id.log | grep 'why' | cut -c1-300
  grep -m2 'MACHINERY' /verif/build/mut-$id.log
done
git -C /repo reset -q; git -C /repo checkout -f HEAD -- .
git -C /repo status --short | head -3
