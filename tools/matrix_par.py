#!/venv/bin/python
"""tools/matrix_par.py [-j K] [-o out.txt] <glob under seeded/> ...
Run seeded changes against the quick checks in parallel, each job in its own scratch worktree of /repo
(VERIF_REPO) with its own scratch build/evidence directories, so /repo and /verif/evidence are never touched.
For seeded/<ID>-... the property's own check runs first, then the checks listed in also.txt; seeded/own/*.diff
use the 'checks' of seeded/own/meta.json."""
import sys, os, glob, json, subprocess, argparse, shutil, threading, queue, time

V = '/verif'
ap = argparse.ArgumentParser()
ap.add_argument('-j', type=int, default=4)
ap.add_argument('-o', default=V + '/build/matrix_par.txt')
ap.add_argument('--tier', default='quick')
ap.add_argument('--prefix', default='mw', help='name prefix of the scratch worktrees under /tmp (two matrices can run side by side)')
ap.add_argument('pats', nargs='+')
a = ap.parse_args()

jobs = []
own_meta = {}
if os.path.exists(V + '/seeded/own/meta.json'):
    own_meta = json.load(open(V + '/seeded/own/meta.json'))
for pat in a.pats:
    for path in sorted(glob.glob(os.path.join(V, 'seeded', pat))):
        if path.endswith('.diff'):
            name = os.path.basename(path)[:-5]
            m = own_meta.get(name, {}) if isinstance(own_meta, dict) else {}
            checks = m.get('properties') or [name.split('_')[0].upper()]
            jobs.append(('own/' + name, path, checks))
        elif os.path.isdir(path) and os.path.basename(path) != 'own':
            sid = os.path.basename(path)
            p = os.path.join(path, 'patch_rebased.diff')
            if not os.path.exists(p):
                p = os.path.join(path, 'patch.diff')
            mp = os.path.join(path, 'meta.json')
            if os.path.exists(mp) and json.load(open(mp)).get('superseded'):
                continue          # neutralised by a later fix: commit (see its meta.json)
            checks = [sid.split('-')[0]]
            if os.path.exists(os.path.join(path, 'also.txt')):
                checks += open(os.path.join(path, 'also.txt')).read().split()
            jobs.append((sid, p, checks))

q = queue.Queue()
for j in jobs:
    q.put(j)
lock = threading.Lock()
results = {}


def sh(*cmd, **kw):
    return subprocess.run(cmd, stdout=subprocess.PIPE, stderr=subprocess.STDOUT, universal_newlines=True, **kw)


def worker(k):
    wt, bd = '/tmp/%s-%d' % (a.prefix, k), '/tmp/%sb-%d' % (a.prefix, k)
    sh('git', '-C', '/repo', 'worktree', 'remove', '--force', wt)
    shutil.rmtree(wt, ignore_errors=True)
    r = sh('git', '-C', '/repo', 'worktree', 'add', '--detach', wt, 'HEAD')
    if r.returncode:
        print('worktree failed', r.stdout)
        return
    os.makedirs(bd, exist_ok=True)
    env = dict(os.environ, VERIF_REPO=wt, VERIF_BUILD=bd, VERIF_EVID=bd + '/evidence')
    try:
        while True:
            try:
                sid, patch, checks = q.get_nowait()
            except queue.Empty:
                break
            r = sh('git', '-C', wt, 'apply', '--whitespace=nowarn', patch)
            if r.returncode:
                r = sh('git', '-C', wt, 'apply', '--whitespace=nowarn', '-3', patch)
            if r.returncode:
                sh('git', '-C', wt, 'reset', '-q'); sh('git', '-C', wt, 'checkout', '-f', 'HEAD', '--', '.')
                with lock:
                    results[sid] = 'PATCH DOES NOT APPLY'
                continue
            cells = []
            for c in checks:
                t0 = time.time()
                r = sh(V + '/check', c, '--tier', a.tier, env=env)
                nv = sum(1 for l in r.stdout.splitlines() if l.startswith('VIOLATION'))
                why = [l.strip()[:200] for l in r.stdout.splitlines() if l.strip().startswith('why:')][:1]
                mach = [l[:200] for l in r.stdout.splitlines() if 'MACHINERY' in l][:1]
                cells.append('%s rc=%d viol=%d %ds %s' % (c, r.returncode, nv, time.time() - t0, (why or mach or [''])[0]))
                if r.returncode == 1:
                    break            # caught: the remaining checks add nothing
            sh('git', '-C', wt, 'reset', '-q'); sh('git', '-C', wt, 'checkout', '-f', 'HEAD', '--', '.')
            with lock:
                results[sid] = ' | '.join(cells)
                print('%s: %s' % (sid, results[sid]), flush=True)
    finally:
        sh('git', '-C', '/repo', 'worktree', 'remove', '--force', wt)
        shutil.rmtree(wt, ignore_errors=True)
        shutil.rmtree(bd, ignore_errors=True)


ts = [threading.Thread(target=worker, args=(k,)) for k in range(a.j)]
for t in ts:
    t.start()
for t in ts:
    t.join()
sh('git', '-C', '/repo', 'worktree', 'prune')
with open(a.o, 'w') as f:
    for sid, _, _ in jobs:
        f.write('%s: %s\n' % (sid, results.get(sid, 'NOT RUN')))
caught = sum(1 for s in results.values() if ' rc=1 ' in s)
print('caught %d of %d' % (caught, len(jobs)))
