#!/venv/bin/python
"""tools/design_matrix.py <matrix file> [prefix filter] : markdown rows 'seeded change | result | summary' from a matrix_par output"""
import sys, json, os, re
rows = []
for line in open(sys.argv[1]):
    sid, _, rest = line.strip().partition(': ')
    if len(sys.argv) > 2 and not re.search(sys.argv[2], sid):
        continue
    cells = []
    for c in rest.split(' | '):
        m = re.match(r'(C\d\d) rc=(\d+) viol=(\d+)', c)
        if m:
            cells.append('%s %s' % (m.group(1), {'0': 'green', '1': 'RED', '2': 'machinery'}.get(m.group(2), '?')))
    summ = ''
    mp = os.path.join('/verif/seeded', sid, 'meta.json')
    if os.path.exists(mp):
        summ = json.load(open(mp)).get('summary', '')[:150].replace('|', '/').replace('\n', ' ')
    elif sid.startswith('own/'):
        om = json.load(open('/verif/seeded/own/meta.json')).get(sid[4:], {})
        summ = om.get('what', om.get('file', ''))
    rows.append('| %s | %s | %s |' % (sid, ', '.join(cells) or rest[:40], summ))
print('\n'.join(rows))
