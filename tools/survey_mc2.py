#!/venv/bin/python
"""Survey of the (multicomplex, n=2, default generator) cell of C01/C02: every ExprMachine program of the quick bound,
written with the power operator, at a few base points; prints relative error and error/estimate per last lossy op.
usage: survey_mc2.py <repo-src>   (TLC is run once; records cached in build/mc2_recs.json)"""
import sys, os, json, collections
sys.path.insert(0, os.path.join(os.path.dirname(os.path.abspath(__file__)), '..', 'harness'))
import vlib, exprs
import numpy as np
cache = os.path.join(vlib.VERIF, 'build', 'mc2_recs.json')
if not os.path.exists(cache):
    import c01
    res = c01.tlc_programs('quick')
    recs = [r for rr in res for r in rr.records if all(q[1] != 0 for q in r['jet'])]
    json.dump(recs, open(cache, 'w'))
recs = json.load(open(cache))
sys.path.insert(0, sys.argv[1])
import numdifftools as nd
rows = collections.defaultdict(list)
seen = set()
for r in recs:
    k = (tuple(r['prog']), tuple(r['c']))
    if k in seen or len(r['jet']) < 3:
        continue
    seen.add(k)
    exact = exprs.exact_derivative(r['jet'], 2)
    sigma0 = 2 * max(abs(v) for v in exprs.jet_floats(r['jet']))
    for a in (0.125, -3.0, 100.0):
        for powop in (False, True):
            f = exprs.make_fun(r['prog'], r['c'][0] / r['c'][1], a, powop=powop)
            try:
                with np.errstate(all='ignore'):
                    v, info = nd.Derivative(f, n=2, method='multicomplex', full_output=True)(a)
            except Exception as ex:
                rows['RAISE'].append((0, 0, '.'.join(r['prog']), a, str(ex)[:60])); continue
            err = abs(float(v) - exact)
            ops = [o for o in r['prog'][1:] if o not in ('dup', 'add', 'sub', 'mul', 'add1', 'sub_half', 'mul2', 'mul_mhalf')]
            cls = '+'.join(sorted(set(ops) & {'arcsin', 'arctan', 'arcsinh', 'arctanh', 'recip', 'div', 'pow32', 'powm12', 'sqrt', 'log', 'log1p', 'tan', 'tanh', 'ipow2', 'ipow3', 'expm1'})) or 'plain'
            rows[cls + ('^' if powop else '')].append((err / (sigma0 * (1 + abs(a))), err / max(float(info.error_estimate), 1e-300), '.'.join(r['prog']), a, float(v), exact))
for cls in sorted(rows):
    v = sorted(rows[cls])
    print('%-28s n=%4d  max err/sigma %.2e  (%s @ %s got %s exact %s)' % (cls, len(v), v[-1][0], v[-1][2], v[-1][3], v[-1][4] if len(v[-1]) > 4 else '', v[-1][5] if len(v[-1]) > 5 else ''))
