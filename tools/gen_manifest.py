#!/usr/bin/env python3
"""Regenerate /verif/MANIFEST.json from tools/checks.json (one entry per claimed property)."""
import json, os, subprocess
V = os.path.dirname(os.path.dirname(os.path.abspath(__file__)))
checks = json.load(open(os.path.join(V, 'tools', 'checks.json')))
props = [json.loads(l)['id'] for l in open(os.path.join(V, 'properties.jsonl'))]
hooks = checks.get('hook_commits', [])
m = {
 "version": 1,
 "setup_cmd": "make -C /verif setup",
 "hooks": {
  "guard": "NUMDIFFTOOLS_VERIF",
  "enable": "environment variable NUMDIFFTOOLS_VERIF=1 set by ./check before numdifftools is imported from /repo/src (pure Python: no build step)",
  "baseline_off_cmd": "cd /repo && env -u NUMDIFFTOOLS_VERIF /venv/bin/python -m pytest -ra -q -p no:cacheprovider --timeout=900 --continue-on-collection-errors",
  "source_commits": hooks,
  "add_only": True
 },
 "engines": [
  {"name": "tlc", "path": "/usr/local/bin/tlc", "serves_properties": sorted(checks['checks']),
   "kind_free_text": "TLC 1.8 explicit-state model checker on the TLA+ modules under /verif/spec; generates the cases/behaviours and validates recorded traces"},
  {"name": "harness", "path": "/verif/harness", "serves_properties": sorted(checks['checks']),
   "kind_free_text": "Python drivers: replay TLC-emitted cases/behaviours into the real code under /repo/src and feed recorded traces back to TLC"}
 ],
 "checks": [],
 "notes": checks.get('notes', ''),
 "not_applicable": []
}
for pid in props:
    c = checks['checks'].get(pid)
    if not c:
        m['not_applicable'].append({"property_id": pid, "reason": checks.get('not_applicable', {}).get(pid, 'check not built yet in this round; planned per DESIGN.md section 6')})
        continue
    m['checks'].append({
        "property_id": pid,
        "quick_cmd": "./check %s --tier quick" % pid,
        "thorough_cmd": "./check %s --tier thorough" % pid,
        "evidence_file": "/verif/evidence/%s.json" % pid,
        "replay_cmd_template": "./check %s --replay {path}" % pid,
        "engine": "tlc",
        "level_claimed": {"category": "model_checking", "text": c['text'], "design_ref": c.get('design_ref', 'DESIGN.md section 6, ' + pid)},
        "level_note": c['note'],
        "technique": c['technique'],
    })
json.dump(m, open(os.path.join(V, 'MANIFEST.json'), 'w'), indent=1)
print('MANIFEST.json:', len(m['checks']), 'checks,', len(m['not_applicable']), 'not_applicable')
