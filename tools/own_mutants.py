#!/usr/bin/env python3
"""Hand-written breaking changes (the 'Catches' lists of DESIGN section 6).  For each entry a patch is
made from the current /repo tree (replacement applied, `git diff`, tree restored) and written to
/verif/seeded/own/<name>.diff together with the property it is aimed at.  Usage:
   tools/own_mutants.py make         # (re)generate the patches
   tools/own_mutants.py run [names]  # apply each, run its check(s), restore; writes build/own_matrix.txt
These changes are NOT claimed to pass the repository's test suite; they measure the sensitivity of
the checks."""
import json, os, subprocess, sys

R = '/repo/src/numdifftools/'
M = [
 # name, properties, file, old, new
 ('c01_sign_complex_odd', 'C06 C01', 'finite_difference.py', "return ((_SQRT_J / 2.) * (f(x + i_h) - f(x - i_h))).imag", "return ((_SQRT_J / 2.) * (f(x - i_h) - f(x + i_h))).imag"),
 ('c01_sqrtj_half', 'C06 C01', 'finite_difference.py', "return ((_SQRT_J / 2.) * (f(x + i_h) - f(x - i_h))).imag", "return ((_SQRT_J) * (f(x + i_h) - f(x - i_h))).imag"),
 ('c01_flip_set', 'C06 C01', 'finite_difference.py', "(self.n % 8 in [3, 4, 5, 6])", "(self.n % 8 in [3, 4, 5])"),
 ('c01_h_power', 'C06 C01', 'finite_difference.py', "der_init = f_diff / (h ** self.n)", "der_init = f_diff / (h ** (self.n - 1)) / h[0]"),
 ('c01_origin', 'C06 C01', 'finite_difference.py', "f_diff = convolve(f_del, fd_rule[::-1], axis=0, origin=n_r // 2)", "f_diff = convolve(f_del, fd_rule[::-1], axis=0, origin=(n_r + 1) // 2)"),
 ('c01_even_higher_12', 'C06 C01', 'finite_difference.py', "return 12.0 * (f(x + i_h) + f(x - i_h) - 2 * f_x).real", "return 12.0 * (f(x + i_h) + f(x - i_h) - f_x).real"),
 ('c02_no_outliers', 'C02 C01', 'limits.py', "        errors += _Limit._add_error_to_outliers(der)\n", "        errors += 0 * _Limit._add_error_to_outliers(der)\n"),
 ('c02_argmin_first', 'C02 C08', 'limits.py', "            arg_mins[i] = idx[idx.size // 2]", "            arg_mins[i] = idx[0] if i else 0"),
 ('c02_dea3_abserr', 'C13 C02', 'extrapolation.py', "abserr = err1 + err2 + np.where(converged, tol2 * 10, np.abs(result - e_2))", "abserr = err1 + err2 + np.where(converged, tol2 * 10, 0 * np.abs(result - e_2))"),
 ('c02_wynn_steps', 'C02', 'limits.py', "        return der, errors, steps[2:]", "        return der, errors, steps[:-2]"),
 ('c02_err_gather', 'C02 C08', 'limits.py', "        err = errors.flat[idx].reshape(shape)", "        err = errors.flat[idx[::-1]].reshape(shape)"),
 ('c03_no_axis_swap', 'C03', 'finite_difference.py', "            axes[:2] = axes[1::-1]\n            original_shape[:2] = original_shape[1::-1]\n", "            original_shape[:2] = original_shape[1::-1]\n"),
 ('c03_expand_h0', 'C03', 'core.py', "return [np.array([one * h[i] for i in range(n)]) for h in steps]", "return [np.array([one * h[0] for i in range(n)]) for h in steps]"),
 ('c03_increments_noreset', 'C03 C05', 'finite_difference.py', "            yield e_i\n            e_i[k] = 0\n", "            yield e_i\n            e_i[k] = 0 if k % 2 == 0 else e_i[k]\n"),
 ('c03_dirdiff_norm', 'C03', 'core.py', "vec = np.reshape(vec / np.linalg.norm(vec.ravel()), x0.shape)", "vec = np.reshape(vec / 1.0, x0.shape)"),
 ('c03_gradient_nosqueeze', 'C03', 'core.py', "        return result.squeeze()\n", "        return result\n"),
 ('c04_no_mirror', 'C04', 'finite_difference.py', "                              - f(x - e_i + e_j) + f(x - e_i - e_j)) / (4. * hess[j, i])\n                hess[j, i] = hess[i, j]\n", "                              - f(x - e_i + e_j) + f(x - e_i - e_j)) / (4. * hess[j, i])\n                hess[j, i] = hess[i, j] * (1 + 1e-13)\n"),
 ('c04_factor', 'C04', 'finite_difference.py', "- f(x - e_i + e_j) + f(x - e_i - e_j)) / (4. * hess[j, i])", "- f(x - e_i + e_j) + f(x - e_i - e_j)) / (2. * hess[j, i])"),
 ('c04_backward_plus', 'C04 C05', 'finite_difference.py', "return HessianDifferenceFunctions._forward(f, f_x, x, -h)", "return HessianDifferenceFunctions._forward(f, f_x, x, h)"),
 ('c04_central2_fx', 'C04', 'finite_difference.py', "                              - f_xpe[i] - f_xpe[j] + f_x\n", "                              - f_xpe[i] - f_xpe[j]\n"),
 ('c04_hessdiag_n', 'C04', 'core.py', "super(Hessdiag, self).__init__(f, step=step, method=method, n=2, order=order, **options)", "super(Hessdiag, self).__init__(f, step=step, method=method, n=2, order=order + (2 if order == 6 else 0), **options)"),
 ('c05_jac_backward', 'C05', 'finite_difference.py', "        return np.array([f_x - f(x - hi) for hi in steps])\n\n    @staticmethod\n    def _forward", "        return np.array([f(x + hi) - f_x for hi in steps])\n\n    @staticmethod\n    def _forward"),
 ('c05_central2_sign', 'C05 C04', 'finite_difference.py', "partials = [(f(x + 2 * hi) + f(x - 2 * hi)\n", "partials = [(f(x + 2 * hi) + f(x + 2 * hi)\n"),
 ('c05_complex_real', 'C05 C06', 'finite_difference.py', "        return f(x + 1j * h).imag\n", "        return f(x + 1e-3 * h + 1j * h).imag\n"),
 ('c06_offset_table', 'C06', 'finite_difference.py', "offset = [1, 1, 2, 2, 4, 1, 3][parity]", "offset = [1, 1, 2, 2, 4, 1, 1][parity]"),
 ('c06_c0_table', 'C06', 'finite_difference.py', "c_0 = [1.0, 1.0, 1.0, 2.0, 24.0, 1.0, 6.0][parity]", "c_0 = [1.0, 1.0, 1.0, 2.0, 12.0, 1.0, 6.0][parity]"),
 ('c06_rule_index', 'C06', 'finite_difference.py', "        rule_index = order // step\n", "        rule_index = (order + 1) // step if self.method == 'forward' and self.n == 2 else order // step\n"),
 ('c06_rstep_complex', 'C06', 'finite_difference.py', "complex_step = 4 if self._complex_high_order else 2", "complex_step = 4 if (self._complex_high_order and self.n != 5) else 2"),
 ('c07_no_reverse', 'C07', 'extrapolation.py', "new_sequence = convolve(sequence, rule[::-1], axis=0, origin=n_r // 2)", "new_sequence = convolve(sequence, rule, axis=0, origin=n_r // 2)"),
 ('c07_trim_tail', 'C07', 'extrapolation.py', "return new_sequence[:m], abserr[:m], steps[:m]", "return new_sequence[-m:], abserr[:m], steps[:m]"),
 ('c07_complex_split', 'C07', 'extrapolation.py', "return convolve1d(seq.real, rule, **kwds) + 1j * convolve1d(seq.imag, rule, **kwds)", "return convolve1d(seq.real, rule, **kwds) + 1j * convolve1d(seq.imag, np.real(rule), **kwds)"),
 ('c07_no_clip', 'C07', 'extrapolation.py', "num_terms = min(self.num_terms, sequence_length - 1)", "num_terms = min(self.num_terms, max(sequence_length - 1, 1))"),
 ('c08_nanmin_noaxis', 'C08', 'limits.py', "            min_errors = np.nanmin(errors, axis=0)", "            min_errors = np.nanmin(errors, axis=0) * 0 + np.nanmin(errors)"),
 ('c08_percentile_noaxis', 'C08', 'limits.py', "                p25, median, p75 = np.percentile(der, [25,50, 75], axis=0)", "                p25, median, p75 = np.percentile(der, [25,50, 75])"),
 ('c08_drop_args', 'C05 C08', 'core.py', "            return fun(x, *args, **kwds)\n\n        return self.fd_rule.diff, export_fun", "            return fun(x, *args)\n\n        return self.fd_rule.diff, export_fun"),
 ('c09_key_no_parity', 'C09 C06', 'finite_difference.py', "        fd_rules = FD_RULES.get((step_ratio, parity, num_terms))", "        parity_key = min(parity, 1)\n        fd_rules = FD_RULES.get((step_ratio, parity_key, num_terms))"),
 ('c09_inplace_flip', 'C09 C06', 'finite_difference.py', "            return -fd_rules[rule_index]\n", "            fd_rules[rule_index] *= -1\n            return fd_rules[rule_index]\n"),
 ('c09_n_setter', 'C09 C05', 'core.py', "        self.fd_rule.n = value\r\n        self._set_derivative()", "        self.fd_rule.n = value"),
 ('c10_divisor', 'C10', 'step_generators.py', "complex_divisior = 4 if (n > 1 or order >= 4) else 2", "complex_divisior = 4 if (n > 1 or order > 4) else 2"),
 ('c10_default_ratio', 'C10 C09', 'step_generators.py', "step_ratio = {1: 2.0}.get(self._state.n, 1.6)", "step_ratio = {1: 2.0, 2: 2.0}.get(self._state.n, 1.6)"),
 ('c10_exact_operand', 'C10', 'step_generators.py', "            step_ratio = make_exact(step_ratio)\n        return self._step_generator", "            step_ratio = make_exact(base_step) * 0 + step_ratio\n        return self._step_generator"),
 ('c10_scale_entry', 'C10 C01', 'step_generators.py', "3.65 + n_4 * (5 + 1.7 ** n_4),", "3.65 + n_4 * (5 + 1.5 ** n_4),"),
 ('c10_cstep_count', 'C10 C18', 'limits.py', "return 2 * int(np.round(16.0 / np.log(np.abs(self.step_ratio)))) + 1", "return 2 * int(np.round(16.0 / np.log(np.abs(self.step_ratio))))"),
 ('c11_size_check', 'C11', 'finite_difference.py', "        _assert(f_del.size == h.size, 'fun did not return data of correct '\n                'size (it must be vectorized)')\n        return f_del, h, original_shape\n\n    def apply", "        return f_del, h, original_shape\n\n    def apply"),
 ('c11_multicomplex_n', 'C11', 'finite_difference.py', "            _assert(self.n <= 2, 'Multicomplex method only support first '\n                    'and second order derivatives.')\n", ""),
 ('c11_dirdiff', 'C11', 'core.py', "_assert(x0.size == vec.size, 'vec and x0 must be the same shapes')", "_assert(x0.size <= vec.size, 'vec and x0 must be the same shapes')"),
 ('c11_fdweights', 'C11 C15', 'fornberg.py', "    _assert(n < m, 'len(x) must be larger than n')\n\n    weights = np.zeros((m, n + 1))", "    _assert(n <= m, 'len(x) must be larger than n')\n\n    weights = np.zeros((m, n + 1))"),
 ('c12_cos_sign', 'C12', 'multicomplex.py', "        z2 = -np.sinh(self.z2) * np.sin(self.z1)\n        return Bicomplex(z1, z2)\n\n    def tan", "        z2 = np.sinh(self.z2) * np.sin(self.z1)\n        return Bicomplex(z1, z2)\n\n    def tan"),
 ('c12_rsub', 'C12', 'multicomplex.py', "        return -self.__sub__(other)", "        return self.__sub__(other)"),
 ('c12_arctan', 'C12', 'multicomplex.py', "tmp = J * (arg1.log() - arg2.log()) * 0.5", "tmp = J * (arg2.log() - arg1.log()) * 0.5"),
 ('c13_tiny', 'C13', 'extrapolation.py', "        sss = 1.0 / delta2 - 1.0 / delta1 + _TINY", "        sss = 1.0 / delta2 - 1.0 / delta1 + _EPS"),
 ('c14_shift', 'C14', 'extrapolation.py', "        i_n = 2 * newelm + 2\n", "        i_n = 2 * newelm\n"),
 ('c14_epsalg_index', 'C14', 'extrapolation.py', "            estlim = epstab[n % 2]", "            estlim = epstab[(n + 1) % 2] if n > 4 else epstab[n % 2]"),
 ('c15_index', 'C15 C16', 'fornberg.py', "c_2, c_6, c_7 = c_2 * c_3, j * weights[v, j - 1], weights[v, j]", "c_2, c_6, c_7 = c_2 * c_3, (j + (j > 3)) * weights[v, j - 1], weights[v, j]"),
 ('c16_mirror', 'C16', 'fornberg.py', "du[-i - 1] = np.dot(fd_weights(x[-size:], x0=x[-i - 1], n=n), fx[-size:])", "du[-i - 1] = np.dot(fd_weights(x[-size:], x0=x[-i - 1], n=n), fx[-size:]) if i else np.dot(fd_weights(x[-size + 1:], x0=x[-1], n=n), fx[-size + 1:])"),
 ('c16_window', 'C16', 'fornberg.py', "du[i] = np.dot(fd_weights(x[i - mm:i + mm + 1], x0=x[i], n=n),\n                       fx[i - mm:i + mm + 1])", "du[i] = np.dot(fd_weights(x[i - mm:i + mm], x0=x[i], n=n),\n                       fx[i - mm:i + mm])"),
 ('c17_failed_flag', 'C17', 'fornberg.py', "            failed = not converged\n", "            failed = not converged and i > self.max_iter\n"),
 ('c17_min_iter', 'C17', 'fornberg.py', "            check_degenerate = i > self.min_iter", "            check_degenerate = i >= self.min_iter - 2"),
 ('c18_sign', 'C18', 'limits.py', "sign = dict(forward=1, above=1, backward=-1, below=-1)[self.method]", "sign = dict(forward=1, above=1, backward=-1, below=1)[self.method]"),
 ('c18_terms', 'C18', 'limits.py', "self._set_richardson_rule(self.step.step_ratio, self.order + 1)", "self._set_richardson_rule(abs(self.step.step_ratio), self.order + 1)"),
 ('c18_residue_order', 'C18', 'limits.py', "            order = pole_order + 2\n", "            order = pole_order + 1\n"),
 ('c19_method_map', 'C19', 'nd_scipy.py', "method = dict(complex='cs', central='3-point', forward='2-point',", "method = dict(complex='cs', central='2-point', forward='2-point',"),
 ('c19_kwargs', 'C19', 'nd_scipy.py', "kwargs=kwds, bounds=self.bounds, sparsity=self.sparsity)", "kwargs={}, bounds=self.bounds, sparsity=self.sparsity)"),
 ('c02_median_guard', 'C02', 'limits.py', "(abs(der) > (a_median * trim_fact))) * (a_median > 1e-8) +", "(abs(der) > (a_median * trim_fact))) +"),
 ('c02_iqr_factor', 'C02', 'limits.py', "((der < p25 - 1.5 * iqr) + (p75 + 1.5 * iqr < der)))", "((der < p25 - 2.5 * iqr) + (p75 + 2.5 * iqr < der)))"),
 ('c02_median_is_mean', 'C02', 'limits.py', "                p25, median, p75 = np.percentile(der, [25,50, 75], axis=0)\n", "                p25, median, p75 = np.percentile(der, [25,50, 75], axis=0)\n                median = np.mean(der, axis=0)\n"),
 ('c02_penalty_count', 'C02', 'limits.py', "        errors = outliers * np.abs(der - median)", "        errors = outliers * np.abs(der - p25)"),
 ('c17_extrap_stage2_index', 'C17', 'fornberg.py', "c=1.0 - (rs[k - 1] / rs[k + 1]) ** m))", "c=1.0 - (rs[k - 1] / rs[k]) ** m))"),
 ('c17_extrap_stage1_power', 'C17', 'fornberg.py', "extrap0.append(richardson(bs, k=k, c=1.0 - (rs[k - 1] / rs[k]) ** m))", "extrap0.append(richardson(bs, k=k, c=1.0 - (rs[k - 1] / rs[k]) ** (m - 1)))"),
 ('c12_mod_cache', 'C12', 'multicomplex.py', "        r11, r22 = self.z1 * self.z1, self.z2 * self.z2\n        r = np.sqrt(r11 + r22)\n        return r\n", "        r11, r22 = self.z1 * self.z1, self.z2 * self.z2\n        r = np.sqrt(r11 + r22.real)\n        return r\n"),
]
OUT = '/verif/seeded/own'


def make():
    os.makedirs(OUT, exist_ok=True)
    meta = {}
    for name, props, fn, old, new in M:
        p = R + fn
        s = open(p, newline='').read()
        crlf = '\r\n' in s
        o, n_ = old, new
        if crlf and '\r\n' not in o:
            o, n_ = o.replace('\n', '\r\n'), n_.replace('\n', '\r\n')
        if s.count(o) < 1:
            print('NO MATCH', name)
            continue
        open(p, 'w', newline='').write(s.replace(o, n_, 1))
        d = subprocess.run(['git', '-C', '/repo', 'diff'], stdout=subprocess.PIPE).stdout
        subprocess.run(['git', '-C', '/repo', 'checkout', '--', '.'])
        open('%s/%s.diff' % (OUT, name), 'wb').write(d)
        meta[name] = dict(properties=props.split(), file=fn)
    json.dump(meta, open(OUT + '/meta.json', 'w'), indent=1)
    print(len(meta), 'patches')


def run(names):
    meta = json.load(open(OUT + '/meta.json'))
    with open('/verif/build/own_matrix.txt', 'a') as out:
        for name in (names or sorted(meta)):
            props = meta[name]['properties']
            r = subprocess.run(['/verif/tools/try_mutant.sh', '%s/%s.diff' % (OUT, name)] + props, stdout=subprocess.PIPE, stderr=subprocess.STDOUT, universal_newlines=True).stdout
            line = name + ': ' + ' '.join(l for l in r.splitlines() if l.startswith('== '))
            print(line)
            out.write(line + '\n')
            out.flush()


if __name__ == '__main__':
    if sys.argv[1] == 'make':
        make()
    else:
        run(sys.argv[2:])
