#!/venv/bin/python
"""tools/record_matrix.py <matrix_par output> <label>: write the results into seeded/MATRIX.txt (replacing the lines of the
same seeded change) and into each seeded/<id>/meta.json (caught_by, checked_with)."""
import sys, re, json, os
V = '/verif'
new = {}
for line in open(sys.argv[1]):
    sid, sep, rest = line.rstrip('\n').partition(': ')
    if sep and (sid.startswith('C') or sid.startswith('own/')):
        new[sid] = rest
label = sys.argv[2]
old = {}
mp = V + '/seeded/MATRIX.txt'
if os.path.exists(mp):
    for line in open(mp):
        sid, sep, rest = line.rstrip('\n').partition(': ')
        if sep:
            old[sid] = rest
old.update(new)
def skey(s):
    return (s.startswith('own/'), s)
with open(mp, 'w') as f:
    for sid in sorted(old, key=skey):
        f.write('%s: %s\n' % (sid, old[sid]))
for sid, rest in new.items():
    p = os.path.join(V, 'seeded', sid, 'meta.json')
    if not os.path.exists(p):
        continue
    m = json.load(open(p))
    m['caught_by'] = [c.group(1) for c in re.finditer(r'(C\d\d) rc=1', rest)]
    m['checked_with'] = label
    json.dump(m, open(p, 'w'), indent=1)
print(len(new), 'results recorded;', sum(1 for r in new.values() if 'rc=1' in r), 'caught')
