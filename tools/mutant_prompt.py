#!/usr/bin/env python3
"""Print the prompt given to an independent sub-agent that seeds a property-breaking change.
Only the property text and a scratch worktree path are given (nothing from /verif)."""
import json, sys
pid = sys.argv[1]
AVOID = ''
try:
    prev = []
    import glob, os
    for d in sorted(glob.glob('/verif/seeded/%s-*/meta.json' % pid)):
        m = json.load(open(d))
        prev.append('  - ' + (m.get('summary') or '')[:400].replace('\n', ' '))
    if prev:
        AVOID = '\nOther developers have ALREADY tried the following changes; yours must be of a DIFFERENT kind (different function or mechanism, different trigger), not variations of these:\n' + '\n'.join(prev) + '\n'
except Exception:
    pass
wt = sys.argv[2] if len(sys.argv) > 2 else '/tmp/wt-' + pid
for l in open('/verif/properties.jsonl'):
    p = json.loads(l)
    if p['id'] == pid:
        break
else:
    raise SystemExit('no such property')
print(f"""You are helping to evaluate a verification framework by playing the role of a developer who introduces a subtle regression.

Work ONLY inside the scratch git worktree {wt} (a checkout of the Python library pbrod/numdifftools, sources under {wt}/src/numdifftools). Do NOT read, list or touch /verif or /repo or any other worktree under /tmp; everything you need is in {wt}. Never commit anything, and never use `git stash` (the stash is shared between worktrees).

Here is a semantic property the library is supposed to satisfy:

TITLE: {p['title']}
STATEMENT: {p['statement']}
QUANTIFIER: {p['quantifier']['text']}

{AVOID}
Your task: produce TWO different, independent changes (mutations) to the library source (under {wt}/src/numdifftools, not the tests) each of which
  (a) BREAKS the property above (for some input / configuration / history in the quantifier's range),
  (b) still imports fine and still passes the existing test-suite baseline, and
  (c) needs something specific to manifest - a particular configuration, unusual input, a multi-step sequence of operations, a particular interleaving, or two cooperating sites that each look fine alone - NOT something ordinary use would expose at once. Realistic developer slips (off-by-one in a table, wrong branch for a rare parity class, state leaking between calls, sign error in a rarely used formula, a "performance optimisation" that caches too much, ...) are ideal. Small diffs (1-10 lines).

How to run things:
  * Python with numpy/scipy: /venv/bin/python ; use the library with PYTHONPATH={wt}/src
  * Test-suite baseline: cd {wt} && /venv/bin/python -m pytest -q -p no:cacheprovider --timeout=900 --continue-on-collection-errors -x -q 2>&1 | tail -5  -- NOTE: on the UNCHANGED tree exactly 108 tests pass and about 40 fail/error (the failures are pre-existing, e.g. np.trapz removed, missing algopy/statsmodels). First run it on the unchanged tree WITHOUT -x and save the set of passing test ids (use -rA or --junitxml), then after each mutation verify that the same 108 tests still pass (no previously passing test may fail).
  * The source contains a few lines guarded by `_verif.ON` (inactive tracing hooks): leave them alone, they are not part of the behaviour.

Deliverables, written into {wt}/out/ (create it):
  * mut1.diff and mut2.diff : each produced with `git -C {wt} diff` for that mutation ALONE relative to the unchanged tree (apply one, save diff, `git -C {wt} checkout -- src`, then the other). Each must apply cleanly with `git apply` to the unchanged tree.
  * demo1.py and demo2.py : small standalone programs (run as `PYTHONPATH=<tree>/src /venv/bin/python demoN.py`) that exit 0 and print PASS on the unchanged tree, and exit 1 and print FAIL (with the offending numbers) when mutation N is applied. The demo must check the property as stated (against an independently known exact answer), not merely compare with hard-coded library outputs.
  * notes.json : a list of two objects {{"mutation": N, "summary": "...", "needs": "what specific configuration/input/sequence is needed for it to manifest", "files": [...], "baseline_still_pass": true/false, "demo_fails_with": true/false, "demo_passes_without": true/false}}.
Leave the worktree with NO mutation applied at the end (git -C {wt} checkout -- src), only the out/ directory added.

Verify everything yourself before finishing (baseline still passing with each mutation; demo behaviour with and without). In your final message, summarise the two mutations in a few lines each.""")
