#!/venv/bin/python
"""Survey of C01 at generic inner points (float jets, harness/fjets.py): per (method, n, kind) worst err/sigma, split by
whether the program contains an op of the named set.  usage: survey_generic.py <repo-src> [method]"""
import sys, os, json, collections, random, math
sys.path.insert(0, os.path.join(os.path.dirname(os.path.abspath(__file__)), '..', 'harness'))
os.environ['VERIF_REPO'] = os.path.dirname(sys.argv[1].rstrip('/'))
import vlib, exprs, fjets, c01
import numpy as np
recs = json.load(open(os.path.join(vlib.VERIF, 'build', 'mc2_recs.json')))
seen, gen = set(), []
for r in recs:
    k = tuple(r['prog'])
    if k in seen: continue
    seen.add(k)
    for p in (0.3, -0.4, 0.8, -1.7, 2.5):
        try:
            j = fjets.run_program(r['prog'], 1.0, p)
        except fjets.DomainError:
            continue
        gen.append(dict(prog=r['prog'], c=[1, 1], p=p, jet=[list(float(v).as_integer_ratio()) for v in j], entire=r['entire']))
print(len(gen), 'generic records')
c01.RECS = gen
rnd = random.Random(5)
cases = []
only = sys.argv[2] if len(sys.argv) > 2 else None
for pi, r in enumerate(gen):
    rho = exprs.radius_estimate(r['jet'])
    for m in c01.METHODS:
        if only and m != only: continue
        for n in ([1, 2] if m == 'multicomplex' else [rnd.randint(1, 4), rnd.randint(1, 8)]):
            opts = c01.step_options(rnd, rho, r['entire'], m)
            opts = [o for o in opts if not (o[0] == 'max' and n > (1 if m == 'multicomplex' else 2)) and not (o[0] == 'min' and m == 'multicomplex')]
            kind, sk = rnd.choice(opts)
            cases.append((pi, m, n, rnd.choice([1, 2, 3, 4, 6, 8]), rnd.choice([0.125, -3.0, 1.0]), kind, sk, False, False))
outs = vlib.pool_map(c01.run_case, cases, chunksize=16)
worst = collections.defaultdict(list)
LOSSY = {'arcsin', 'arctan', 'arcsinh', 'arctanh', 'pow32', 'powm12', 'sqrt', 'log', 'log1p', 'tan', 'tanh', 'recip', 'div'}
for case, o in zip(cases, outs):
    pi, m, n, order, a, kind, sk, arr, cval = case
    r = gen[pi]
    if o[0] == 'raise':
        worst[(m, n, kind, 'RAISE')].append((0, '.'.join(r['prog']), r['p'], o[1][:50])); continue
    _, vre, vim, est, shape, tame = o
    if not tame: continue
    exact = exprs.exact_derivative(r['jet'], n); sigma = exprs.local_scale(r['jet'], n, a)
    err = abs(vre[0] - exact)
    cls = '+'.join(sorted(set(r['prog']) & LOSSY)) if m == 'multicomplex' and n == 2 else ''
    worst[(m, n, kind, cls)].append((err / sigma, '.'.join(r['prog']), r['p'], a, order, vre[0], exact, err / max(est[0], 1e-300)))
for k in sorted(worst):
    v = sorted(worst[k], key=lambda t: t[0])
    env = c01.envelope(k[0], k[1], k[2])
    print('%-40s n=%4d max %.1e env %.0e %s  %s' % (k, len(v), v[-1][0], env, 'OVER' if v[-1][0] > env else '', v[-1][1:]))
