#!/bin/sh
# tools/mutant_matrix.sh : run every seeded change against its own property's check (and the checks listed
# in seeded/<id>/also.txt); writes build/matrix.txt
cd /verif
PAT=${1:-C*}
OUTF=${2:-build/matrix.txt}
: > $OUTF
for d in seeded/$PAT/; do
  id=$(basename $d); prop=${id%%-*}
  p=$d/patch.diff; [ -f $d/patch_rebased.diff ] && p=$d/patch_rebased.diff
  also=""; [ -f $d/also.txt ] && also=$(cat $d/also.txt)
  out=$(tools/try_mutant.sh /verif/$p $prop $also 2>&1 | grep '^== ' | tr '\n' ' ')
  echo "$id: $out" | tee -a $OUTF
done
