#!/bin/sh
# tools/confirm_mutant2.sh <property-id> <n> : round-2 seeded change n of /tmp/w2-<id>/out (worktree at the
# current /repo HEAD: hooks + fixes).  Keeps it as /verif/seeded/<id>-r2-<n>/ when confirmed.
ID=$1; N=$2; R=${R:-2}; WT=/tmp/w$R-$ID; OUT=$WT/out
PY=/venv/bin/python
BASE=/verif/build/baseline-pass-head.txt
cd $WT || exit 2
git checkout -q -- src
if [ ! -s $BASE ]; then
  $PY -m pytest -q -rA -p no:cacheprovider --timeout=900 --continue-on-collection-errors --ignore=out 2>&1 | grep '^PASSED' | sort > $BASE.tmp; mv $BASE.tmp $BASE
fi
PYTHONPATH=$WT/src $PY $OUT/demo$N.py > /tmp/confirm2-$ID-$N.clean.log 2>&1; rc_clean=$?
git apply --whitespace=nowarn $OUT/mut$N.diff || { echo "$ID-r$R-$N: patch does not apply"; exit 1; }
PYTHONPATH=$WT/src $PY $OUT/demo$N.py > /tmp/confirm2-$ID-$N.mut.log 2>&1; rc_mut=$?
$PY -m pytest -q -rA -p no:cacheprovider --timeout=900 --continue-on-collection-errors --ignore=out 2>&1 | grep '^PASSED' | sort > /tmp/confirm2-$ID-$N.pass.txt
missing=$(comm -23 $BASE /tmp/confirm2-$ID-$N.pass.txt | wc -l)
git checkout -q -- src
echo "$ID-r$R-$N: demo clean rc=$rc_clean, demo mutated rc=$rc_mut, baseline tests lost=$missing (of $(wc -l < $BASE))"
if [ $rc_clean -eq 0 ] && [ $rc_mut -ne 0 ] && [ $missing -eq 0 ]; then
  D=/verif/seeded/$ID-r$R-$N; mkdir -p $D
  cp $OUT/mut$N.diff $D/patch.diff; cp $OUT/demo$N.py $D/demo.py
  $PY - "$ID" "$N" "$OUT/notes.json" "$D/meta.json" "$R" <<'PYEOF'
import json, sys
pid, n, notes, dst = sys.argv[1], int(sys.argv[2]), sys.argv[3], sys.argv[4]
try:
    note = [x for x in json.load(open(notes)) if int(x.get('mutation', -1)) == n][0]
except Exception:
    note = {}
json.dump({"property": pid, "mutation": n, "round": int(sys.argv[5]), "summary": note.get('summary', ''), "needs": note.get('needs', ''),
           "files": note.get('files', []),
           "confirmed": {"demo_exit_unchanged_tree": 0, "demo_exit_with_change": "non-zero", "baseline_tests_lost": 0,
                         "how": "tools/confirm_mutant2.sh in the scratch worktree /tmp/w<round>-%s (current /repo HEAD): demo run without and with the patch, full pytest run compared with the 108 passing ids of that tree" % pid},
           "source": "independent sub-agent given only the property text, summaries of the round-1 changes to avoid, and a scratch worktree"}, open(dst, 'w'), indent=1)
PYEOF
  echo "$ID-r$R-$N: KEPT in $D"
else
  echo "$ID-r$R-$N: NOT confirmed"
fi
rm -f /tmp/confirm2-$ID-$N.*
