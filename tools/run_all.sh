#!/bin/sh
# tools/run_all.sh [tier] : run every registered check once; one line per check
T=${1:-quick}
cd /verif
for id in C01 C02 C03 C04 C05 C06 C07 C08 C09 C10 C11 C12 C13 C14 C15 C16 C17 C18 C19; do
  s=$(date +%s)
  ./check $id --tier $T > build/all-$id.log 2>&1; rc=$?
  e=$(date +%s)
  echo "$id rc=$rc $((e-s))s $(grep -c '^VIOLATION' build/all-$id.log) viol $(grep -c '^KNOWN-FINDING' build/all-$id.log) known"
done
