#!/bin/bash
# tools/try_seed.sh <seeded id> <check id> [tier]: apply one seeded change to the scratch worktree /tmp/tryw (created from /repo HEAD when
# missing), run one check against it with scratch build/evidence directories, undo.  Nothing in /repo or /verif/evidence is touched.
S=$1; C=$2; T=${3:-quick}
W=/tmp/tryw
[ -d $W ] || git -C /repo worktree add --detach $W HEAD >/dev/null 2>&1
git -C $W reset -q --hard; git -C $W checkout -q --detach $(git -C /repo rev-parse HEAD)
P=/verif/seeded/$S/patch_rebased.diff; [ -f $P ] || P=/verif/seeded/$S/patch.diff
git -C $W apply --whitespace=nowarn $P || git -C $W apply -3 --whitespace=nowarn $P || { echo "$S: PATCH DOES NOT APPLY"; exit 2; }
mkdir -p /tmp/trywb
VERIF_REPO=$W VERIF_BUILD=/tmp/trywb VERIF_EVID=/tmp/trywb/evidence VERIF_SEED=${VERIF_SEED:-1} /verif/check $C --tier $T 2>&1 | grep -v "^KNOWN" | cut -c1-260 | tail -${LINES_OUT:-3}
git -C $W reset -q --hard
