#!/bin/sh
# tools/seed_sweep.sh <seed>... : quick tier of every check under other seeds (scratch build/evidence dirs); a line per failure
cd /verif
for s in "$@"; do
  for id in C01 C02 C03 C04 C05 C06 C07 C08 C09 C10 C11 C12 C13 C14 C15 C16 C17 C18 C19; do
    VERIF_SEED=$s VERIF_BUILD=/tmp/sweep-b VERIF_EVID=/tmp/sweep-b/ev ./check $id --tier quick > /tmp/sweep-b-$id-$s.log 2>&1; rc=$?
    echo "seed=$s $id rc=$rc $(grep -c '^VIOLATION' /tmp/sweep-b-$id-$s.log) viol"
    [ $rc -ne 0 ] && grep -m3 'why\|MACHINERY' /tmp/sweep-b-$id-$s.log | cut -c1-300
    [ $rc -eq 0 ] && rm -f /tmp/sweep-b-$id-$s.log
  done
done
rm -rf /tmp/sweep-b
