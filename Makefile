# setup: parse every specification with SANY (fails on a syntax/semantic error) and make scratch dirs.
SPECS := $(wildcard spec/*.tla)
setup:
	@mkdir -p build evidence
	@cd spec && for f in *.tla; do tla-sany $$f > ../build/sany-$$f.log 2>&1 || { echo "SANY failed: $$f"; cat ../build/sany-$$f.log; exit 1; }; done
	@echo "setup ok: $(words $(SPECS)) modules parsed"
.PHONY: setup
